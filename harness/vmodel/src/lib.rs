//! vmodel — an independent, deliberately naive reference model of TLSH.
//!
//! Written in the shape of the TLSH reference implementation (`tlsh_impl.cpp`,
//! `tlsh_util.cpp`).  It depends on nothing from the crate under test and shares
//! no code, table or build flag with it.  All tables are frozen literals.

pub mod softf32;
pub mod tables;
pub mod text;

pub use tables::{TOPVAL, V_TABLE};

/// Maximum data length (inclusive): the last entry of `topval`.
pub const MAX_LEN: u64 = 4_224_281_216;

/// A TLSH variant: number of effective buckets and checksum size.
#[derive(Debug, Clone, Copy, PartialEq, Eq, Hash)]
pub struct Variant {
    pub name: &'static str,
    /// Effective buckets: 48, 128 or 256.
    pub buckets: usize,
    /// Checksum bytes: 1 or 3.
    pub ck: usize,
}

pub const SHORT: Variant = Variant { name: "Short", buckets: 48, ck: 1 };
pub const NORMAL: Variant = Variant { name: "Normal", buckets: 128, ck: 1 };
pub const NORMAL_LC: Variant = Variant { name: "NormalWithLongChecksum", buckets: 128, ck: 3 };
pub const LONG: Variant = Variant { name: "Long", buckets: 256, ck: 1 };
pub const LONG_LC: Variant = Variant { name: "LongWithLongChecksum", buckets: 256, ck: 3 };
pub const VARIANTS: [Variant; 5] = [SHORT, NORMAL, NORMAL_LC, LONG, LONG_LC];

impl Variant {
    /// Body size in bytes.
    pub const fn body(&self) -> usize {
        self.buckets / 4
    }
    /// Size of the binary form.
    pub const fn size(&self) -> usize {
        self.ck + 2 + self.body()
    }
    /// Length of the hex form without prefix.
    pub const fn len_hex(&self) -> usize {
        self.size() * 2
    }
    /// Length of the hex form with the "T1" prefix.
    pub const fn len_str(&self) -> usize {
        self.size() * 2 + 2
    }
    /// MIN_DATA_LENGTH of the reference.
    pub const fn min_len(&self) -> u64 {
        if self.buckets == 48 {
            10
        } else {
            50
        }
    }
    /// MIN_CONSERVATIVE_DATA_LENGTH of the reference.
    pub const fn min_len_conservative(&self) -> u64 {
        if self.buckets == 48 {
            10
        } else {
            128
        }
    }
    /// Minimum non-zero buckets (inclusive) below which the hash is refused.
    /// Reference: `nonzero < 18` (48 buckets), `nonzero <= 4*CODE_SIZE/2` otherwise.
    pub const fn min_nonzero(&self) -> usize {
        if self.buckets == 48 {
            18
        } else {
            self.buckets / 2 + 1
        }
    }
    /// Maximum distance by the formula in the property (6 per dibit, 1 per
    /// checksum byte, 2*7*12 for Q ratios, 128*12 for the length).
    pub const fn max_distance(&self, no_length: bool) -> u32 {
        (6 * self.buckets + self.ck + 2 * 7 * 12 + if no_length { 0 } else { 128 * 12 }) as u32
    }
}

/// The 256-bucket Pearson mapping: four single look-ups.
#[inline]
pub fn b_mapping_256(salt: u8, i: u8, j: u8, k: u8) -> u8 {
    let mut h: u8 = 0;
    h = V_TABLE[(h ^ salt) as usize];
    h = V_TABLE[(h ^ i) as usize];
    h = V_TABLE[(h ^ j) as usize];
    h = V_TABLE[(h ^ k) as usize];
    h
}

/// The 48-bucket fold, computed (not tabulated).
#[inline]
pub fn fold48(x: u8) -> u8 {
    if x >= 240 {
        48
    } else {
        x % 48
    }
}

/// The 48-bucket mapping (`v_table48` applied at the last step).
#[inline]
pub fn b_mapping_48(salt: u8, i: u8, j: u8, k: u8) -> u8 {
    fold48(b_mapping_256(salt, i, j, k))
}

/// Generator options (the 32 settings).
#[derive(Debug, Clone, Copy, PartialEq, Eq, Hash)]
pub struct Options {
    pub conservative: bool,
    pub pure_integer: bool,
    pub allow_small: bool,
    pub allow_half: bool,
    pub allow_quarter: bool,
}

impl Options {
    /// Decodes an index 0..32.
    pub const fn from_index(i: usize) -> Options {
        Options {
            conservative: i & 1 != 0,
            pure_integer: i & 2 != 0,
            allow_small: i & 4 != 0,
            allow_half: i & 8 != 0,
            allow_quarter: i & 16 != 0,
        }
    }
    pub const fn index(&self) -> usize {
        (self.conservative as usize)
            | (self.pure_integer as usize) << 1
            | (self.allow_small as usize) << 2
            | (self.allow_half as usize) << 3
            | (self.allow_quarter as usize) << 4
    }
    /// The library's default: optimistic, f32 Q ratios? No: `GeneratorOptions::new()`
    /// has empty compat flags, i.e. the legacy f32 computation.
    pub const DEFAULT_INDEX: usize = 0;
    /// Most permissive options (integer mode).
    pub const PERMISSIVE_INDEX: usize = 2 | 4 | 8 | 16;
}

/// The specific rejection.
#[derive(Debug, Clone, Copy, PartialEq, Eq, Hash)]
pub enum GenError {
    TooLarge,
    TooSmall,
    HalfEmpty,
    ThreeQuarterEmpty,
}

/// A hash value as plain parts.
#[derive(Debug, Clone, PartialEq, Eq, Hash)]
pub struct Hash {
    pub checksum: Vec<u8>,
    pub lvalue: u8,
    pub q1: u8,
    pub q2: u8,
    /// Body in output order (first bucket in the low bits of the LAST byte).
    pub body: Vec<u8>,
}

impl Hash {
    /// The binary form: checksum, length code, Q byte (Q2 high), body.
    pub fn to_bytes(&self) -> Vec<u8> {
        let mut v = self.checksum.clone();
        v.push(self.lvalue);
        v.push(self.q1 | (self.q2 << 4));
        v.extend_from_slice(&self.body);
        v
    }
    pub fn from_bytes(v: Variant, b: &[u8]) -> Hash {
        assert_eq!(b.len(), v.size());
        Hash {
            checksum: b[..v.ck].to_vec(),
            lvalue: b[v.ck],
            q1: b[v.ck + 1] & 0x0f,
            q2: b[v.ck + 1] >> 4,
            body: b[v.ck + 2..].to_vec(),
        }
    }
}

/// Data-length classification.
#[derive(Debug, Clone, Copy, PartialEq, Eq, Hash)]
pub enum Validity {
    TooSmall,
    ValidWhenOptimistic,
    Valid,
    TooLarge,
}

pub fn validity(v: Variant, n: u64) -> Validity {
    if n < v.min_len() {
        Validity::TooSmall
    } else if n < v.min_len_conservative() {
        Validity::ValidWhenOptimistic
    } else if n <= MAX_LEN {
        Validity::Valid
    } else {
        Validity::TooLarge
    }
}

/// `l_capturing`: linear scan of the frozen table.  `None` above the maximum.
pub fn length_code(n: u64) -> Option<u8> {
    for (i, &top) in TOPVAL.iter().enumerate() {
        if n <= top as u64 {
            return Some(i as u8);
        }
    }
    None
}

/// The generator state of the reference, parameterised by the variant.
#[derive(Clone)]
pub struct Gen {
    pub v: Variant,
    /// 256 physical counters (wrapping u32); counters >= effective buckets
    /// are kept and ignored at finalisation.
    pub a_bucket: [u32; 256],
    pub checksum: [u8; 3],
    /// 5-byte ring buffer indexed by `data_len % 5`.
    pub slide_window: [u8; 5],
    /// Total bytes fed (exact, u64).
    pub data_len: u64,
}

impl Gen {
    pub fn new(v: Variant) -> Gen {
        Gen { v, a_bucket: [0; 256], checksum: [0; 3], slide_window: [0; 5], data_len: 0 }
    }

    /// Builds a state as if `data_len` bytes had been fed ending in `last4`
    /// (oldest first), with the given counters and checksum.
    /// Requires `data_len >= 4` (otherwise use `new` + `update`).
    pub fn from_state(v: Variant, buckets: &[u32], checksum: &[u8], last4: [u8; 4], data_len: u64) -> Gen {
        assert!(data_len >= 4);
        let mut g = Gen::new(v);
        for (d, s) in g.a_bucket.iter_mut().zip(buckets.iter()) {
            *d = *s;
        }
        g.checksum[..v.ck].copy_from_slice(&checksum[..v.ck]);
        g.data_len = data_len;
        // last4[3] is the newest byte, stored at index (data_len-1) % 5.
        for back in 0..4u64 {
            let idx = ((data_len - 1 - back) % 5) as usize;
            g.slide_window[idx] = last4[3 - back as usize];
        }
        g
    }

    /// The last (up to four) bytes fed, oldest first, and how many are valid.
    pub fn tail(&self) -> ([u8; 4], u32) {
        let n = core::cmp::min(self.data_len, 4);
        let mut t = [0u8; 4];
        for back in 0..n {
            let idx = ((self.data_len - 1 - back) % 5) as usize;
            t[(n - 1 - back) as usize] = self.slide_window[idx];
        }
        (t, n as u32)
    }

    fn map(&self, salt: u8, i: u8, j: u8, k: u8) -> u8 {
        if self.v.buckets == 48 {
            b_mapping_48(salt, i, j, k)
        } else {
            b_mapping_256(salt, i, j, k)
        }
    }

    pub fn update(&mut self, data: &[u8]) {
        const RNG: i64 = 5;
        let idx = |x: i64| -> usize { (((x % RNG) + RNG) % RNG) as usize };
        let mut j = (self.data_len % 5) as i64;
        let mut fed_len = self.data_len;
        for &byte in data {
            self.slide_window[j as usize] = byte;
            if fed_len >= 4 {
                let w = self.slide_window;
                let (j0, j1, j2, j3, j4) = (idx(j), idx(j - 1), idx(j - 2), idx(j - 3), idx(j - 4));
                for k in 0..self.v.ck {
                    if k == 0 {
                        self.checksum[0] = self.map(0, w[j0], w[j1], self.checksum[0]);
                    } else {
                        // the expansion to three bytes always uses the 256 mapping
                        self.checksum[k] = b_mapping_256(self.checksum[k - 1], w[j0], w[j1], self.checksum[k]);
                    }
                }
                let r = self.map(2, w[j0], w[j1], w[j2]);
                self.a_bucket[r as usize] = self.a_bucket[r as usize].wrapping_add(1);
                let r = self.map(3, w[j0], w[j1], w[j3]);
                self.a_bucket[r as usize] = self.a_bucket[r as usize].wrapping_add(1);
                let r = self.map(5, w[j0], w[j2], w[j3]);
                self.a_bucket[r as usize] = self.a_bucket[r as usize].wrapping_add(1);
                let r = self.map(7, w[j0], w[j2], w[j4]);
                self.a_bucket[r as usize] = self.a_bucket[r as usize].wrapping_add(1);
                let r = self.map(11, w[j0], w[j1], w[j4]);
                self.a_bucket[r as usize] = self.a_bucket[r as usize].wrapping_add(1);
                let r = self.map(13, w[j0], w[j3], w[j4]);
                self.a_bucket[r as usize] = self.a_bucket[r as usize].wrapping_add(1);
            }
            fed_len += 1;
            j = (j + 1) % RNG;
        }
        self.data_len += data.len() as u64;
    }

    /// Quartiles by a full sort of the effective buckets.
    pub fn quartiles(&self) -> (u32, u32, u32) {
        let n = self.v.buckets;
        let mut s: Vec<u32> = self.a_bucket[..n].to_vec();
        s.sort_unstable();
        (s[n / 4 - 1], s[n / 2 - 1], s[n - n / 4 - 1])
    }

    pub fn nonzero(&self) -> usize {
        self.a_bucket[..self.v.buckets].iter().filter(|&&x| x > 0).count()
    }

    /// `final()` of the reference extended by the crate's documented options.
    /// Rejection order: length, then three-quarter-empty, then half-empty.
    pub fn finalize(&self, o: Options) -> Result<Hash, GenError> {
        let v = self.v;
        match validity(v, self.data_len) {
            Validity::TooLarge => return Err(GenError::TooLarge),
            Validity::TooSmall => {
                if !o.allow_small {
                    return Err(GenError::TooSmall);
                }
            }
            Validity::ValidWhenOptimistic => {
                if o.conservative && !o.allow_small {
                    return Err(GenError::TooSmall);
                }
            }
            Validity::Valid => {}
        }
        let lvalue = length_code(self.data_len).expect("length <= MAX");
        let (mut q1, mut q2, mut q3) = self.quartiles();
        if q3 == 0 {
            if !o.allow_quarter {
                return Err(GenError::ThreeQuarterEmpty);
            }
            q1 = 1;
            q2 = 1;
            q3 = 1;
        }
        if self.nonzero() < v.min_nonzero() && !(o.allow_half || o.allow_quarter) {
            return Err(GenError::HalfEmpty);
        }
        let (q1r, q2r) = if o.pure_integer {
            ((((q1 as u128) * 100 / (q3 as u128)) % 16) as u8, (((q2 as u128) * 100 / (q3 as u128)) % 16) as u8)
        } else {
            (softf32::qratio_f32(q1, q3), softf32::qratio_f32(q2, q3))
        };
        let code_size = v.body();
        let mut tmp_code = vec![0u8; code_size];
        for i in 0..code_size {
            let mut h = 0u8;
            for j in 0..4 {
                let k = self.a_bucket[4 * i + j];
                if q3 < k {
                    h += 3 << (j * 2);
                } else if q2 < k {
                    h += 2 << (j * 2);
                } else if q1 < k {
                    h += 1 << (j * 2);
                }
            }
            tmp_code[i] = h;
        }
        // output order: reversed
        let body: Vec<u8> = (0..code_size).map(|i| tmp_code[code_size - 1 - i]).collect();
        Ok(Hash { checksum: self.checksum[..v.ck].to_vec(), lvalue, q1: q1r, q2: q2r, body })
    }
}

/// One-shot hashing.
pub fn hash(v: Variant, data: &[u8], o: Options) -> Result<Hash, GenError> {
    let mut g = Gen::new(v);
    g.update(data);
    g.finalize(o)
}

/// `mod_diff` of the reference.
pub fn mod_diff(x: u32, y: u32, r: u32) -> u32 {
    let dl = if y > x { y - x } else { x - y };
    let dr = r - dl;
    if dl > dr {
        dr
    } else {
        dl
    }
}

/// Body distance: per dibit `|x-y|` with 3 replaced by 6.
pub fn distance_body(a: &[u8], b: &[u8]) -> u32 {
    assert_eq!(a.len(), b.len());
    let mut diff = 0;
    for (&x, &y) in a.iter().zip(b.iter()) {
        for s in 0..4 {
            let x1 = ((x >> (2 * s)) & 3) as i32;
            let y1 = ((y >> (2 * s)) & 3) as i32;
            let d = (x1 - y1).abs();
            diff += if d == 3 { 6 } else { d as u32 };
        }
    }
    diff
}

pub fn distance_checksum(a: &[u8], b: &[u8]) -> u32 {
    a.iter().zip(b.iter()).filter(|(x, y)| x != y).count() as u32
}

pub fn distance_q(x: u8, y: u8) -> u32 {
    let d = mod_diff(x as u32, y as u32, 16);
    if d <= 1 {
        d
    } else {
        (d - 1) * 12
    }
}

pub fn distance_length(x: u8, y: u8) -> u32 {
    let d = mod_diff(x as u32, y as u32, 256);
    if d <= 1 {
        d
    } else {
        d * 12
    }
}

/// Total distance as in the property statement.
pub fn distance(a: &Hash, b: &Hash, no_length: bool) -> u32 {
    let mut d = distance_body(&a.body, &b.body);
    d += distance_checksum(&a.checksum, &b.checksum);
    d += distance_q(a.q1, b.q1) + distance_q(a.q2, b.q2);
    if !no_length {
        d += distance_length(a.lvalue, b.lvalue);
    }
    d
}

/// Quartile of bucket `i` from a body in output order.
pub fn quartile(body: &[u8], i: usize) -> u8 {
    (body[body.len() - 1 - i / 4] >> (2 * (i % 4))) & 3
}

pub mod selftest;

/// Bucket aggregation: the per-bucket `k > q3 / q2 / q1` cascade of `final()`,
/// body in output order (first bucket in the low bits of the last byte).
pub fn aggregate(buckets: &[u32], n: usize, q1: u32, q2: u32, q3: u32) -> Vec<u8> {
    let code_size = n / 4;
    let mut tmp = vec![0u8; code_size];
    for i in 0..code_size {
        let mut h = 0u8;
        for j in 0..4 {
            let k = buckets[4 * i + j];
            if q3 < k {
                h += 3 << (j * 2);
            } else if q2 < k {
                h += 2 << (j * 2);
            } else if q1 < k {
                h += 1 << (j * 2);
            }
        }
        tmp[i] = h;
    }
    tmp.reverse();
    tmp
}
