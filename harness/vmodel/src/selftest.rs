//! Provenance self-test of the model: frozen tables against their closed forms
//! and the model against the official implementation's published vectors
//! (which the repository under test carries as literals in its tests/docs).
//! A failure here means the ORACLE is broken (exit 2), never a violation.

use crate::text::{decode, encode, PrefixMode};
use crate::*;

const LOREM: &[u8] = b"Lorem ipsum dolor sit amet, consectetur \
adipiscing elit, sed do eiusmod tempor incididunt ut labore et dolore magna \
aliqua. Ut enim ad minim veniam, quis nostrud exercitation ullamco laboris nisi \
ut aliquip ex ea commodo consequat. Duis aute irure dolor in reprehenderit in \
voluptate velit esse cillum dolore eu fugiat nulla pariatur. Excepteur sint \
occaecat cupidatat non proident, sunt in culpa qui officia deserunt mollit anim \
id est laborum.";

const SMALLEXE: &[u8] = include_bytes!("../data/smallexe.exe");

fn opt(conservative: bool, int: bool, small: bool, half: bool, quarter: bool) -> Options {
    Options { conservative, pure_integer: int, allow_small: small, allow_half: half, allow_quarter: quarter }
}

fn expect(v: Variant, data: &[u8], o: Options, text: &str) -> Result<(), String> {
    let h = hash(v, data, o).map_err(|e| format!("{}: model rejected ({:?}) expected {}", v.name, e, text))?;
    let got = String::from_utf8(encode(v, &h.to_bytes(), true)).unwrap();
    if got != text {
        return Err(format!("{}: model {} != published {}", v.name, got, text));
    }
    Ok(())
}

fn parse(v: Variant, s: &str) -> Hash {
    Hash::from_bytes(v, &decode(v, s.as_bytes(), PrefixMode::Auto).expect("vector parses"))
}

/// Runs all provenance checks; `Err` describes the first failure.
pub fn run() -> Result<usize, String> {
    let mut n = 0usize;
    // --- Pearson table
    let mut seen = [false; 256];
    for &x in V_TABLE.iter() {
        if seen[x as usize] {
            return Err("V_TABLE is not a permutation".into());
        }
        seen[x as usize] = true;
    }
    // fast_b_mapping constants of the reference: v_table[salt] for the salts
    let expect_salts = [(0u8, 1u8), (2, 49), (3, 12), (5, 178), (7, 166), (11, 84), (13, 230)];
    for (s, e) in expect_salts {
        if V_TABLE[s as usize] != e {
            return Err(format!("V_TABLE[{}] = {} != {}", s, V_TABLE[s as usize], e));
        }
    }
    n += 2;
    // --- topval
    for i in 0..16 {
        let e = 1.5f64.powi(i as i32 + 1).floor() as u32;
        if TOPVAL[i] != e {
            return Err(format!("topval[{}]", i));
        }
    }
    for i in 16..22 {
        let e = (657.0 * 1.3f64.powi(i as i32 - 15)).floor() as u32;
        if TOPVAL[i] != e {
            return Err(format!("topval[{}]", i));
        }
    }
    for i in 22..170 {
        let e = 3159.625 * 1.1f64.powi(i as i32 - 21);
        // floor() of a value computed in single precision by the reference
        let diff = ((TOPVAL[i] as f64) - e).abs();
        if diff > 1.0 + e * 4e-6 {
            return Err(format!("topval[{}] = {} is not ~ {:.1}", i, TOPVAL[i], e));
        }
    }
    for w in TOPVAL.windows(2) {
        if w[0] >= w[1] {
            return Err("topval not strictly increasing".into());
        }
    }
    if TOPVAL[169] as u64 != MAX_LEN {
        return Err("topval last".into());
    }
    n += 4;
    // --- soft float against native f32 on a deterministic sample
    let mut x: u64 = 0x9E3779B97F4A7C15;
    let mut next = || {
        x ^= x << 13;
        x ^= x >> 7;
        x ^= x << 17;
        x
    };
    for i in 0..200_000u32 {
        let r = next();
        let (q, q3) = match i % 4 {
            0 => ((r as u32) >> (r >> 59), ((r >> 32) as u32) | 1),
            1 => ((r as u32) % 1000, ((r >> 32) as u32 % 1000) + 1),
            2 => (r as u32, r as u32 | 1),
            _ => ((r as u32) | 0x8000_0000, ((r >> 32) as u32) | 0x8000_0000),
        };
        let native = ((q.wrapping_mul(100) as f32) / (q3 as f32)) as u32 % 16;
        let soft = softf32::qratio_f32(q, q3) as u32;
        if native != soft {
            return Err(format!("softf32({}, {}) = {} != native {}", q, q3, soft, native));
        }
    }
    n += 1;
    // --- published vectors
    let d = opt(false, false, false, false, false);
    expect(SHORT, LOREM, d, "T1E1F029B2FCAA4D5FE04846105FA5E2")?;
    expect(NORMAL, LOREM, d, "T1DCF0DC36520C1B007FD32079B226559FD998A0200725E75AFCEAC99F5881184A4B1AA2")?;
    expect(NORMAL_LC, LOREM, d, "T1DC33D4F0DC36520C1B007FD32079B226559FD998A0200725E75AFCEAC99F5881184A4B1AA2")?;
    expect(LONG, LOREM, d, "T1DCF0DCA405C02AF1D4860CA5894A05301D60E9915198060A7044C608A1E89A11BD2B2836520C1B007FD32079B226559FD998A0200725E75AFCEAC99F5881184A4B1AA2")?;
    expect(LONG_LC, LOREM, d, "T1DC33D4F0DCA405C02AF1D4860CA5894A05301D60E9915198060A7044C608A1E89A11BD2B2836520C1B007FD32079B226559FD998A0200725E75AFCEAC99F5881184A4B1AA2")?;
    expect(SHORT, b"Hello, World!", d, "T1E16004017D3551777571D55C005CC5")?;
    n += 6;
    // timing_unittest vectors (1 MB)
    let buf1: Vec<u8> = (b'A'..=b'Z').cycle().take(1_000_000 - 1).chain([0]).collect();
    expect(NORMAL, &buf1, d, "T1A12500088C838B0A0F0EC3C0ACAB82F3B8228B0308CFA302338C0F0AE2C24F28000008")?;
    let buf2: Vec<u8> = (b' '..(b' ' + 90)).cycle().take(1_000_000 - 1).chain([0]).collect();
    expect(NORMAL, &buf2, d, "T129251210F4C18D0A5F0661C4F64D905B585253A3024F022323E5074CC5601904886D1C")?;
    n += 2;
    expect(NORMAL, SMALLEXE, d, "T1FFE04C037F895471D42E5530499E47473757E5E456D28B13ED1944654C8534C7CE9E01")?;
    expect(SHORT, SMALLEXE, d, "T140E0483A5DFC1B073D86A4A2C55A43")?;
    n += 2;
    // doc-test vectors
    expect(NORMAL, b"Lovak won the squad prize cup for sixty big jumps.", d,
        "T14A90024954691E114404124180D942C1450F8423775ADE1510211420456593621A8173")?;
    if hash(NORMAL, b"Lovak won the squad prize cup for sixty big jumps.", opt(true, false, false, false, false)) != Err(GenError::TooSmall) {
        return Err("conservative 50 bytes".into());
    }
    expect(NORMAL, b"The quick brown fox jumps over the lazy dog.", opt(false, false, true, false, false),
        "T19E90024A21181294648A1888438D94B292C8C510612114116430600218082219C98551")?;
    if hash(NORMAL, b"The quick brown fox jumps over the lazy dog.", d) != Err(GenError::TooSmall) {
        return Err("44 bytes".into());
    }
    expect(NORMAL, b"ABCDEFGHIJKLMNOPQRSTABCDEFGHIJKLMNOPQRSTABCDEFGHIJ", opt(false, false, false, true, false),
        "T1609000080C838F2A0F2C82C0ECA282F33808838B00CE0300228C2F80C8800E08800000")?;
    if hash(NORMAL, b"ABCDEFGHIJKLMNOPQRSTABCDEFGHIJKLMNOPQRSTABCDEFGHIJ", d) != Err(GenError::HalfEmpty) {
        return Err("half-empty".into());
    }
    expect(NORMAL, b"ABCDEABCDEABCDEABCDEABCDEABCDEABCDEABCDEABCDEABCDE", opt(false, false, false, false, true),
        "T14590440C330003C00C0033000000C300F000C00300C030000000C3000000000000C000")?;
    if hash(NORMAL, b"ABCDEABCDEABCDEABCDEABCDEABCDEABCDEABCDEABCDEABCDE", opt(false, false, false, true, false))
        != Err(GenError::ThreeQuarterEmpty)
    {
        return Err("three-quarter-empty".into());
    }
    n += 8;
    // the 50-byte all-ones-bucket vector
    let ones: &[u8] = b"\
        \x59\xc7\xb0\xe5\x47\xbe\x4c\x06\xdc\x95\x03\xc5\x16\x47\x2f\x8d\
        \x03\xea\x73\xd1\xc0\xb8\x79\xcd\x09\x87\xb9\x1f\xdf\xf9\x7c\xdb\
        \x38\x76\xd7\xf2\x04\xde\xc2\xcf\x9f\x7f\xab\xf0\xd5\x7a\x11\x56\
        \xf1\x89";
    expect(NORMAL, ones, d, "T11C90440000000000000000000000000000000000000000000000000000000000000000")?;
    n += 1;
    // empty input
    if hash(NORMAL, b"", d) != Err(GenError::TooSmall) || hash(NORMAL, b"", opt(false, false, true, false, false)) != Err(GenError::ThreeQuarterEmpty) {
        return Err("empty input".into());
    }
    n += 1;
    // --- distances
    let a = parse(NORMAL, "T1A12500088C838B0A0F0EC3C0ACAB82F3B8228B0308CFA302338C0F0AE2C24F28000008");
    let b = parse(NORMAL, "T129251210F4C18D0A5F0661C4F64D905B585253A3024F022323E5074CC5601904886D1C");
    if distance(&a, &b, false) != 138 {
        return Err(format!("distance 138 != {}", distance(&a, &b, false)));
    }
    let a = parse(NORMAL, "T12AD5BE86FFE41D17CC268876A9AE472077B2B0032716DBAF1849A7647DDB7C0DF16488");
    let b = parse(NORMAL, "T1EDD5BE96FFE41D1BCC268C7699AE4720B7B2A0032716DBAF1848A7647DD77C0DF16488");
    if distance(&a, &b, false) != 9 {
        return Err("distance 9".into());
    }
    let a = parse(SHORT, "T140D5F17F44F8AB007AE2AC46E515DC");
    let b = parse(SHORT, "T140D5F17F44FCAB007AE2A846E515DC");
    if distance(&a, &b, false) != 2 {
        return Err("distance 2".into());
    }
    n += 3;
    // binary-form example of the documentation
    let t = "T170F37CF0DC36520C1B007FD320B9B266559FD998A0200725E75AFCEAC99F5881184A4B1AA2";
    let bin = decode(NORMAL_LC, t.as_bytes(), PrefixMode::Auto).unwrap();
    let hex: String = bin.iter().map(|b| format!("{:02X}", b)).collect();
    if hex != "073FC70FCD36520C1B007FD320B9B266559FD998A0200725E75AFCEAC99F5881184A4B1AA2" {
        return Err("binary form example".into());
    }
    n += 1;
    // from_state/tail consistency of the model itself
    let mut g = Gen::new(NORMAL);
    g.update(&LOREM[..100]);
    let (t4, tl) = g.tail();
    if tl != 4 || t4 != LOREM[96..100] {
        return Err("tail()".into());
    }
    let mut g2 = Gen::from_state(NORMAL, &g.a_bucket, &g.checksum, t4, g.data_len);
    g.update(&LOREM[100..]);
    g2.update(&LOREM[100..]);
    if g.finalize(d) != g2.finalize(d) || g.finalize(d) != hash(NORMAL, LOREM, d) {
        return Err("from_state".into());
    }
    n += 1;
    Ok(n)
}

#[cfg(test)]
mod tests {
    #[test]
    fn selftest() {
        let n = super::run().unwrap();
        assert!(n > 20);
    }
}
