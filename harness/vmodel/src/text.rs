//! The hexadecimal text form: header bytes nibble-swapped, body plain,
//! upper-case digits, optional "T1".

use crate::Variant;

#[derive(Debug, Clone, Copy, PartialEq, Eq, Hash)]
pub enum PrefixMode {
    /// Auto-detect from the length.
    Auto,
    /// No prefix expected.
    Empty,
    /// "T1" expected.
    WithVersion,
}

#[derive(Debug, Clone, Copy, PartialEq, Eq, Hash, PartialOrd, Ord)]
pub enum ParseErr {
    LengthIsTooLarge,
    InvalidPrefix,
    InvalidCharacter,
    InvalidStringLength,
    InvalidChecksum,
}

const DIGITS: &[u8; 16] = b"0123456789ABCDEF";

pub fn swap(b: u8) -> u8 {
    (b << 4) | (b >> 4)
}

/// Encodes the binary form `bytes` (of variant `v`) as text.
pub fn encode(v: Variant, bytes: &[u8], with_prefix: bool) -> Vec<u8> {
    assert_eq!(bytes.len(), v.size());
    let mut out = Vec::new();
    if with_prefix {
        out.extend_from_slice(b"T1");
    }
    let header = v.ck + 2;
    for (i, &b) in bytes.iter().enumerate() {
        let b = if i < header { swap(b) } else { b };
        out.push(DIGITS[(b >> 4) as usize]);
        out.push(DIGITS[(b & 15) as usize]);
    }
    out
}

pub fn digit(c: u8) -> Option<u8> {
    match c {
        b'0'..=b'9' => Some(c - b'0'),
        b'a'..=b'f' => Some(c - b'a' + 10),
        b'A'..=b'F' => Some(c - b'A' + 10),
        _ => None,
    }
}

/// Resolves the effective prefix mode; `None` if the length is wrong.
pub fn resolve(v: Variant, s: &[u8], mode: PrefixMode) -> Option<bool> {
    match mode {
        PrefixMode::Auto => {
            if s.len() == v.len_hex() {
                Some(false)
            } else if s.len() == v.len_str() {
                Some(true)
            } else {
                None
            }
        }
        PrefixMode::Empty => (s.len() == v.len_hex()).then_some(false),
        PrefixMode::WithVersion => (s.len() == v.len_str()).then_some(true),
    }
}

/// Lenient well-formedness.
pub fn wellformed(v: Variant, s: &[u8], mode: PrefixMode) -> bool {
    match resolve(v, s, mode) {
        None => false,
        Some(with) => {
            let rest = if with {
                if &s[..2] != b"T1" {
                    return false;
                }
                &s[2..]
            } else {
                s
            };
            rest.iter().all(|&c| digit(c).is_some())
        }
    }
}

/// Decodes a well-formed string to the binary form.
pub fn decode(v: Variant, s: &[u8], mode: PrefixMode) -> Option<Vec<u8>> {
    if !wellformed(v, s, mode) {
        return None;
    }
    let with = resolve(v, s, mode).unwrap();
    let rest = if with { &s[2..] } else { s };
    let header = v.ck + 2;
    let mut out = Vec::with_capacity(v.size());
    for (i, pair) in rest.chunks(2).enumerate() {
        let b = (digit(pair[0]).unwrap() << 4) | digit(pair[1]).unwrap();
        out.push(if i < header { swap(b) } else { b });
    }
    Some(out)
}

/// The strict gates on a binary form: which strict errors apply.
pub fn strict_errors(v: Variant, bytes: &[u8]) -> Vec<ParseErr> {
    let mut e = Vec::new();
    if v.buckets == 48 && bytes[0] > 48 {
        e.push(ParseErr::InvalidChecksum);
    }
    if bytes[v.ck] >= 170 {
        e.push(ParseErr::LengthIsTooLarge);
    }
    e
}

/// The set of errors that actually apply to `s` (empty iff accepted).
///
/// A wrong length admits only `InvalidStringLength`.  Otherwise: bad prefix,
/// bad character, and (strict only) the two strict gates evaluated on the
/// fields whose digits are valid.
pub fn applicable_errors(v: Variant, s: &[u8], mode: PrefixMode, strict: bool) -> Vec<ParseErr> {
    let with = match resolve(v, s, mode) {
        None => return vec![ParseErr::InvalidStringLength],
        Some(w) => w,
    };
    let mut e = Vec::new();
    let rest = if with {
        if &s[..2] != b"T1" {
            e.push(ParseErr::InvalidPrefix);
        }
        &s[2..]
    } else {
        s
    };
    if rest.iter().any(|&c| digit(c).is_none()) {
        e.push(ParseErr::InvalidCharacter);
    }
    if strict {
        // checksum field (first byte only matters, for 48 buckets)
        if v.buckets == 48 {
            if let (Some(lo), Some(hi)) = (digit(rest[0]), digit(rest[1])) {
                if ((hi << 4) | lo) > 48 {
                    e.push(ParseErr::InvalidChecksum);
                }
            }
        }
        let p = v.ck * 2;
        if let (Some(lo), Some(hi)) = (digit(rest[p]), digit(rest[p + 1])) {
            if ((hi << 4) | lo) >= 170 {
                e.push(ParseErr::LengthIsTooLarge);
            }
        }
    }
    e
}

/// The canonical form of an accepted string: "T1" + upper(strip_prefix(s)).
pub fn canonical(v: Variant, s: &[u8], mode: PrefixMode) -> Option<Vec<u8>> {
    if !wellformed(v, s, mode) {
        return None;
    }
    let with = resolve(v, s, mode).unwrap();
    let rest = if with { &s[2..] } else { s };
    let mut out = b"T1".to_vec();
    out.extend(rest.iter().map(|c| c.to_ascii_uppercase()));
    Some(out)
}
