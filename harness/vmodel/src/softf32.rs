//! The legacy (TLSH <= 4.12.0) Q ratio formula
//! `(unsigned)((float)(q*100) / (float)q3) % 16`, evaluated in integer
//! arithmetic only (so that it does not share the compiler's float code
//! generation with the implementation under test).

/// An IEEE-754 binary32 value restricted to non-negative finite numbers,
/// represented exactly as `m * 2^e` with `m < 2^24`.
#[derive(Debug, Clone, Copy, PartialEq, Eq)]
pub struct SoftF32 {
    pub m: u32,
    pub e: i32,
}

/// `(float)x` for a `u32`: round to nearest, ties to even, 24-bit significand.
pub fn from_u32(x: u32) -> SoftF32 {
    if x == 0 {
        return SoftF32 { m: 0, e: 0 };
    }
    let bits = 32 - x.leading_zeros() as i32;
    if bits <= 24 {
        return SoftF32 { m: x, e: 0 };
    }
    let s = bits - 24;
    let mut m = (x >> s) as u64;
    let round = (x >> (s - 1)) & 1;
    let sticky = x & ((1u32 << (s - 1)) - 1) != 0;
    let mut e = s;
    if round == 1 && (sticky || m & 1 == 1) {
        m += 1;
    }
    if m == 1 << 24 {
        m >>= 1;
        e += 1;
    }
    SoftF32 { m: m as u32, e }
}

/// Correctly rounded binary32 division of two non-negative values (b > 0).
pub fn div(a: SoftF32, b: SoftF32) -> SoftF32 {
    assert!(b.m != 0);
    if a.m == 0 {
        return SoftF32 { m: 0, e: 0 };
    }
    // a/b = (a.m / b.m) * 2^(a.e - b.e).  Quotient with 64 extra bits.
    const K: u32 = 64;
    let num = (a.m as u128) << K;
    let n = num / b.m as u128;
    let rem = num % b.m as u128;
    let bits = 128 - n.leading_zeros() as i32; // n >= 2^(64-24) > 0
    let s = bits - 24; // > 0
    let mut m = (n >> s) as u64;
    let round = (n >> (s - 1)) & 1;
    let sticky = (n & ((1u128 << (s - 1)) - 1)) != 0 || rem != 0;
    let mut e = s - K as i32 + a.e - b.e;
    if round == 1 && (sticky || m & 1 == 1) {
        m += 1;
    }
    if m == 1 << 24 {
        m >>= 1;
        e += 1;
    }
    // Quotients here are >= 2^-32, far above the subnormal range.
    SoftF32 { m: m as u32, e }
}

/// `(unsigned)f`: truncation towards zero, saturating like Rust's `as u32`.
pub fn to_u32(f: SoftF32) -> u32 {
    if f.m == 0 {
        return 0;
    }
    if f.e >= 0 {
        let v = (f.m as u128) << (f.e as u32).min(64);
        if v > u32::MAX as u128 {
            u32::MAX
        } else {
            v as u32
        }
    } else {
        let sh = (-f.e) as u32;
        if sh >= 32 {
            0
        } else {
            f.m >> sh
        }
    }
}

/// The legacy Q ratio: the multiplication by 100 wraps in 32 bits as in the
/// reference (`unsigned int` arithmetic).
pub fn qratio_f32(q: u32, q3: u32) -> u8 {
    let a = from_u32(q.wrapping_mul(100));
    let b = from_u32(q3);
    (to_u32(div(a, b)) % 16) as u8
}
