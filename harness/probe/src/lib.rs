//! The probe library: a thin pass-through adapter from the crate under test (`tlsh`,
//! built with the feature set of one configuration) to the object-safe API of
//! `vcheck`, plus a counting global allocator.  No checking logic lives here.

#![allow(unexpected_cfgs)]
#![allow(clippy::all)]

use std::alloc::{GlobalAlloc, Layout, System};
use std::any::Any;
use std::cell::Cell;
use std::io::Read;
use std::path::Path;

use vcheck::api::*;
use vcheck::noalloc::{Op, Program, Report, MAX_OPS};

use tlsh::hash::body::FuzzyHashBody as _;
use tlsh::hash::checksum::FuzzyHashChecksum as _;
use tlsh::length::{DataLengthProcessingMode, DataLengthValidity, FuzzyHashLengthEncoding};
use tlsh::{ComparisonConfiguration, FuzzyHashType, GeneratorError, GeneratorOptions, GeneratorType, HexStringPrefix, OperationError, ParseError};

// ------------------------------------------------------------ allocator

thread_local! {
    static ALLOCS: Cell<u64> = const { Cell::new(0) };
}

struct Counting;

#[inline]
fn bump() {
    let _ = ALLOCS.try_with(|c| c.set(c.get() + 1));
}

unsafe impl GlobalAlloc for Counting {
    unsafe fn alloc(&self, l: Layout) -> *mut u8 {
        bump();
        // fresh (not zero-requested) memory is poisoned: a buffer that the library hands to a
        // caller's reader "uninitialised" then differs visibly from a zeroed one
        let p = System.alloc(l);
        if !p.is_null() && l.size() <= (4 << 20) {
            core::ptr::write_bytes(p, 0xA5, l.size());
        }
        p
    }
    unsafe fn dealloc(&self, p: *mut u8, l: Layout) {
        System.dealloc(p, l)
    }
    unsafe fn alloc_zeroed(&self, l: Layout) -> *mut u8 {
        bump();
        System.alloc_zeroed(l)
    }
    unsafe fn realloc(&self, p: *mut u8, l: Layout, n: usize) -> *mut u8 {
        bump();
        System.realloc(p, l, n)
    }
}

#[global_allocator]
static GLOBAL: Counting = Counting;

fn alloc_count() -> u64 {
    ALLOCS.try_with(|c| c.get()).unwrap_or(0)
}

// ------------------------------------------------------------ conversions

fn perr(e: ParseError) -> PErr {
    match e {
        ParseError::LengthIsTooLarge => PErr::LengthIsTooLarge,
        ParseError::InvalidPrefix => PErr::InvalidPrefix,
        ParseError::InvalidCharacter => PErr::InvalidCharacter,
        ParseError::InvalidStringLength => PErr::InvalidStringLength,
        ParseError::InvalidChecksum => PErr::InvalidChecksum,
        _ => PErr::Unknown,
    }
}

fn gerr(e: GeneratorError) -> GErr {
    match e {
        GeneratorError::TooLargeInput => GErr::TooLarge,
        GeneratorError::TooSmallInput => GErr::TooSmall,
        GeneratorError::BucketsAreHalfEmpty => GErr::HalfEmpty,
        GeneratorError::BucketsAreThreeQuarterEmpty => GErr::ThreeQuarterEmpty,
        _ => GErr::Unknown,
    }
}

fn oerr(e: OperationError) -> OErr {
    match e {
        OperationError::BufferIsTooSmall => OErr::BufferIsTooSmall,
        _ => OErr::Unknown,
    }
}

fn prefix(p: Prefix) -> HexStringPrefix {
    match p {
        Prefix::Empty => HexStringPrefix::Empty,
        Prefix::WithVersion => HexStringPrefix::WithVersion,
    }
}

fn config(no_length: bool) -> ComparisonConfiguration {
    if no_length {
        ComparisonConfiguration::NoLength
    } else {
        ComparisonConfiguration::Default
    }
}

fn mk_opts(o: Opts) -> GeneratorOptions {
    let mut g = GeneratorOptions::new();
    g.length_processing_mode(if o.conservative { DataLengthProcessingMode::Conservative } else { DataLengthProcessingMode::Optimistic })
        .pure_integer_qratio_computation(o.pure_integer)
        .allow_small_size_files(o.allow_small)
        .allow_statistically_weak_buckets_half(o.allow_half)
        .allow_statistically_weak_buckets_quarter(o.allow_quarter);
    g
}

fn validity(v: DataLengthValidity) -> Validity {
    match v {
        DataLengthValidity::TooSmall => Validity::TooSmall,
        DataLengthValidity::ValidWhenOptimistic => Validity::ValidWhenOptimistic,
        DataLengthValidity::Valid => Validity::Valid,
        DataLengthValidity::TooLarge => Validity::TooLarge,
    }
}

fn validity_back(v: Validity) -> DataLengthValidity {
    match v {
        Validity::TooSmall => DataLengthValidity::TooSmall,
        Validity::ValidWhenOptimistic => DataLengthValidity::ValidWhenOptimistic,
        Validity::Valid => DataLengthValidity::Valid,
        Validity::TooLarge => DataLengthValidity::TooLarge,
    }
}

#[cfg(all(feature = "t-easy-functions", feature = "t-std"))]
fn stream_err(e: tlsh::GeneratorOrIOError) -> StreamErr {
    match e {
        tlsh::GeneratorOrIOError::GeneratorError(g) => StreamErr::Gen(gerr(g)),
        tlsh::GeneratorOrIOError::IOError(i) => StreamErr::Io(i),
    }
}

#[cfg(feature = "t-easy-functions")]
fn side_err(e: tlsh::ParseErrorEither) -> (Side, PErr) {
    (
        match e.side() {
            tlsh::ParseErrorSide::Left => Side::Left,
            tlsh::ParseErrorSide::Right => Side::Right,
        },
        perr(e.inner_err()),
    )
}

#[cfg(fast_tlsh_verif)]
fn dist_backend(b: DistBackend) -> tlsh::verif_hooks::VerifDistanceBackend {
    use tlsh::verif_hooks::VerifDistanceBackend as B;
    match b {
        DistBackend::Dispatch => B::Dispatch,
        DistBackend::Pseudo32 => B::Pseudo32,
        DistBackend::Pseudo64 => B::Pseudo64,
        DistBackend::Sse2 => B::Sse2,
        DistBackend::Sse41 => B::Sse41,
        DistBackend::Avx2 => B::Avx2,
    }
}

#[cfg(fast_tlsh_verif)]
fn agg_backend(b: AggBackend) -> tlsh::verif_hooks::VerifAggregationBackend {
    use tlsh::verif_hooks::VerifAggregationBackend as B;
    match b {
        AggBackend::Dispatch => B::Dispatch,
        AggBackend::Naive => B::Naive,
        AggBackend::Sse2 => B::Sse2,
        AggBackend::Ssse3 => B::Ssse3,
        AggBackend::Avx2 => B::Avx2,
    }
}

// ------------------------------------------------------------ per-variant adapter

macro_rules! variant {
    ($m:ident, $ty:ty, $model:expr, $n:literal, $body:literal, $ck:literal, $buckets:literal, $dist_by:ident, $agg_by:ident, $map:ident) => {
        mod $m {
            use super::*;
            pub type T = $ty;
            pub type Gen = tlsh::TlshGeneratorFor<T>;

            #[derive(Clone)]
            pub struct HObj(pub T);
            pub struct GObj(pub Gen);
            pub struct VApi;

            fn down(o: &dyn HashObj) -> &T {
                &o.as_any().downcast_ref::<HObj>().expect("same variant").0
            }
            fn bx(t: T) -> H {
                Box::new(HObj(t))
            }

            impl HashObj for HObj {
                fn store_bytes(&self, out: &mut [u8]) -> Result<usize, OErr> {
                    self.0.store_into_bytes(out).map_err(oerr)
                }
                fn store_str(&self, out: &mut [u8], p: Prefix) -> Result<usize, OErr> {
                    self.0.store_into_str_bytes(out, prefix(p)).map_err(oerr)
                }
                fn display(&self) -> String {
                    format!("{}", self.0)
                }
                fn display_flags(&self) -> Vec<(&'static str, String)> {
                    let h = &self.0;
                    vec![
                        ("{:>160}", format!("{:>160}", h)),
                        ("{:<3}", format!("{:<3}", h)),
                        ("{:*^150}", format!("{:*^150}", h)),
                        ("{:0200}", format!("{:0200}", h)),
                        ("{:.10}", format!("{:.10}", h)),
                        ("{:.0}", format!("{:.0}", h)),
                        ("{:#}", format!("{:#}", h)),
                        ("{:+}", format!("{:+}", h)),
                        ("{:>1$}", format!("{:>1$}", h, 99)),
                    ]
                }
                fn to_string_(&self) -> String {
                    self.0.to_string()
                }
                fn checksum(&self) -> Vec<u8> {
                    self.0.checksum().data().to_vec()
                }
                fn checksum_valid(&self) -> bool {
                    self.0.checksum().is_valid()
                }
                fn lvalue(&self) -> u8 {
                    self.0.length().value()
                }
                fn length_valid(&self) -> bool {
                    self.0.length().is_valid()
                }
                fn qvalue(&self) -> u8 {
                    self.0.qratios().value()
                }
                fn q1(&self) -> u8 {
                    self.0.qratios().q1ratio()
                }
                fn q2(&self) -> u8 {
                    self.0.qratios().q2ratio()
                }
                fn body(&self) -> Vec<u8> {
                    self.0.body().data().to_vec()
                }
                fn quartile(&self, i: usize) -> u8 {
                    self.0.body().quartile(i)
                }
                fn compare(&self, o: &dyn HashObj, no_length: bool) -> u32 {
                    self.0.compare_with_config(down(o), config(no_length))
                }
                fn compare_default(&self, o: &dyn HashObj) -> u32 {
                    self.0.compare(down(o))
                }
                fn compare_parts(&self, o: &dyn HashObj) -> [u32; 4] {
                    let o = down(o);
                    [
                        self.0.body().compare(o.body()),
                        self.0.checksum().compare(o.checksum()),
                        self.0.qratios().compare(o.qratios()),
                        self.0.length().compare(o.length()),
                    ]
                }
                fn equals(&self, o: &dyn HashObj) -> bool {
                    self.0 == *down(o)
                }
                fn clear_checksum(&mut self) {
                    self.0.clear_checksum()
                }
                fn boxed_clone(&self) -> H {
                    Box::new(self.clone())
                }
                fn as_any(&self) -> &dyn Any {
                    self
                }
                fn debug(&self) -> String {
                    format!("{:?}", self.0)
                }
            }

            impl GenObj for GObj {
                fn update(&mut self, d: &[u8]) {
                    self.0.update(d)
                }
                fn finalize(&self, o: Opts) -> Result<H, GErr> {
                    self.0.finalize_with_options(&mk_opts(o)).map(bx).map_err(gerr)
                }
                fn finalize_default(&self) -> Result<H, GErr> {
                    self.0.finalize().map(bx).map_err(gerr)
                }
                fn finalize_setters(&self, seq: &[(u8, bool)]) -> Result<H, GErr> {
                    let mut o = GeneratorOptions::new();
                    for &(w, val) in seq {
                        match w % 5 {
                            0 => {
                                o.length_processing_mode(if val { DataLengthProcessingMode::Conservative } else { DataLengthProcessingMode::Optimistic });
                            }
                            1 => {
                                o.pure_integer_qratio_computation(val);
                            }
                            2 => {
                                o.allow_small_size_files(val);
                            }
                            3 => {
                                o.allow_statistically_weak_buckets_half(val);
                            }
                            _ => {
                                o.allow_statistically_weak_buckets_quarter(val);
                            }
                        }
                    }
                    self.0.finalize_with_options(&o).map(bx).map_err(gerr)
                }
                fn processed_len(&self) -> Option<u32> {
                    self.0.processed_len()
                }
                fn boxed_clone(&self) -> G {
                    Box::new(GObj(self.0.clone()))
                }
                fn boxed_clone_from_state(&self, _dst: &GenState) -> Option<G> {
                    #[cfg(fast_tlsh_verif)]
                    {
                        use tlsh::verif_hooks::VerifGeneratorHook;
                        let mut g = Gen::verif_from_state(&_dst.buckets, _dst.len, _dst.tail, _dst.tail_len, &_dst.checksum);
                        g.clone_from(&self.0);
                        return Some(Box::new(GObj(g)));
                    }
                    #[allow(unreachable_code)]
                    None
                }
                fn boxed_clone_from(&self, pre: &[u8]) -> G {
                    let mut dst = Gen::new();
                    dst.update(pre);
                    dst.clone_from(&self.0);
                    Box::new(GObj(dst))
                }
                fn state(&self) -> Option<GenState> {
                    #[cfg(fast_tlsh_verif)]
                    {
                        use tlsh::verif_hooks::VerifGeneratorHook;
                        let s = self.0.verif_state();
                        return Some(GenState {
                            buckets: s.buckets[..s.num_physical].to_vec(),
                            len: s.len,
                            tail: s.tail,
                            tail_len: s.tail_len,
                            checksum: s.checksum[..s.checksum_len].to_vec(),
                        });
                    }
                    #[allow(unreachable_code)]
                    None
                }
            }

            impl VariantApi for VApi {
                fn v(&self) -> Variant {
                    $model
                }
                fn consts(&self) -> Consts {
                    Consts {
                        number_of_buckets: T::NUMBER_OF_BUCKETS,
                        size_in_bytes: T::SIZE_IN_BYTES,
                        len_in_str_except_prefix: T::LEN_IN_STR_EXCEPT_PREFIX,
                        len_in_str: T::LEN_IN_STR,
                        gen_min: Gen::MIN,
                        gen_min_conservative: Gen::MIN_CONSERVATIVE,
                        gen_max: Gen::MAX,
                        checksum_size: <T as FuzzyHashType>::ChecksumType::SIZE,
                        checksum_max_distance: <T as FuzzyHashType>::ChecksumType::MAX_DISTANCE,
                        body_size: <T as FuzzyHashType>::BodyType::SIZE,
                        body_num_buckets: <T as FuzzyHashType>::BodyType::NUM_BUCKETS,
                        body_max_distance: <T as FuzzyHashType>::BodyType::MAX_DISTANCE,
                        is_checksum_effective: Gen::IS_CHECKSUM_EFFECTIVE,
                    }
                }
                fn max_distance(&self, no_length: bool) -> u32 {
                    T::max_distance(config(no_length))
                }
                fn from_str_bytes(&self, s: &[u8], p: Option<Prefix>) -> Result<H, PErr> {
                    T::from_str_bytes(s, p.map(prefix)).map(bx).map_err(perr)
                }
                fn from_str_with(&self, s: &str, p: Option<Prefix>) -> Result<H, PErr> {
                    T::from_str_with(s, p.map(prefix)).map(bx).map_err(perr)
                }
                fn from_str(&self, s: &str) -> Result<H, PErr> {
                    <T as core::str::FromStr>::from_str(s).map(bx).map_err(perr)
                }
                fn try_from_slice(&self, b: &[u8]) -> Result<H, PErr> {
                    T::try_from(b).map(bx).map_err(perr)
                }
                fn try_from_array(&self, b: &[u8]) -> Result<H, PErr> {
                    let a: &[u8; $n] = b.try_into().expect("probe: try_from_array needs exactly N bytes");
                    T::try_from(a).map(bx).map_err(perr)
                }
                fn generator(&self) -> G {
                    Box::new(GObj(Gen::new()))
                }
                fn generator_default(&self) -> G {
                    Box::new(GObj(Gen::default()))
                }
                fn validity(&self, n: u32) -> Validity {
                    validity(DataLengthValidity::new::<$buckets>(n))
                }
                fn hash_buf(&self, _d: &[u8]) -> Option<Result<H, GErr>> {
                    #[cfg(feature = "t-easy-functions")]
                    return Some(tlsh::hash_buf_for::<T>(_d).map(bx).map_err(gerr));
                    #[allow(unreachable_code)]
                    None
                }
                fn hash_stream(&self, _r: &mut dyn Read) -> Option<Result<H, StreamErr>> {
                    #[cfg(all(feature = "t-easy-functions", feature = "t-std"))]
                    {
                        let mut r = _r;
                        return Some(tlsh::hash_stream_for::<T, _>(&mut r).map(bx).map_err(stream_err));
                    }
                    #[allow(unreachable_code)]
                    None
                }
                fn hash_file(&self, _p: &Path) -> Option<Result<H, StreamErr>> {
                    #[cfg(all(feature = "t-easy-functions", feature = "t-std"))]
                    return Some(tlsh::hash_file_for::<T, _>(_p).map(bx).map_err(stream_err));
                    #[allow(unreachable_code)]
                    None
                }
                fn compare_with(&self, _l: &str, _r: &str) -> Option<Result<u32, (Side, PErr)>> {
                    #[cfg(feature = "t-easy-functions")]
                    return Some(tlsh::compare_with::<T>(_l, _r).map_err(side_err));
                    #[allow(unreachable_code)]
                    None
                }
                fn gen_from_state(&self, _st: &GenState) -> Option<G> {
                    #[cfg(fast_tlsh_verif)]
                    {
                        use tlsh::verif_hooks::VerifGeneratorHook;
                        let g = Gen::verif_from_state(&_st.buckets, _st.len, _st.tail, _st.tail_len, &_st.checksum);
                        return Some(Box::new(GObj(g)));
                    }
                    #[allow(unreachable_code)]
                    None
                }
                fn b_mapping(&self, _b0: u8, _b1: u8, _b2: u8, _b3: u8) -> Option<u8> {
                    #[cfg(fast_tlsh_verif)]
                    return Some(tlsh::verif_hooks::$map(_b0, _b1, _b2, _b3));
                    #[allow(unreachable_code)]
                    None
                }
                fn b_mapping_sweep(&self, _b0: u8, _out: &mut [u8]) -> bool {
                    #[cfg(fast_tlsh_verif)]
                    {
                        assert_eq!(_out.len(), 1 << 24);
                        for b1 in 0..=255u8 {
                            for b2 in 0..=255u8 {
                                let base = ((b1 as usize) << 16) | ((b2 as usize) << 8);
                                for b3 in 0..=255u8 {
                                    _out[base | b3 as usize] = tlsh::verif_hooks::$map(_b0, b1, b2, b3);
                                }
                            }
                        }
                        return true;
                    }
                    #[allow(unreachable_code)]
                    false
                }
                fn body_distance_by(&self, _backend: DistBackend, _a: &[u8], _b: &[u8]) -> Option<u32> {
                    #[cfg(fast_tlsh_verif)]
                    {
                        let a: &[u8; $body] = _a.try_into().expect("body size");
                        let b: &[u8; $body] = _b.try_into().expect("body size");
                        return tlsh::verif_hooks::$dist_by(dist_backend(_backend), a, b);
                    }
                    #[allow(unreachable_code)]
                    None
                }
                fn aggregate_by(&self, _backend: AggBackend, _buckets: &[u32], _q1: u32, _q2: u32, _q3: u32) -> Option<Vec<u8>> {
                    #[cfg(fast_tlsh_verif)]
                    {
                        let b: &[u32; $buckets] = _buckets[..$buckets].try_into().expect("bucket count");
                        let mut out = [0u8; $body];
                        if tlsh::verif_hooks::$agg_by(agg_backend(_backend), &mut out, b, _q1, _q2, _q3) {
                            return Some(out.to_vec());
                        }
                        return None;
                    }
                    #[allow(unreachable_code)]
                    None
                }
                fn to_json(&self, _h: &dyn HashObj) -> Option<Result<String, String>> {
                    #[cfg(feature = "t-serde")]
                    return Some(serde_json::to_string(down(_h)).map_err(|e| e.to_string()));
                    #[allow(unreachable_code)]
                    None
                }
                fn from_json(&self, _s: &[u8]) -> Option<Result<H, String>> {
                    #[cfg(feature = "t-serde")]
                    return Some(serde_json::from_slice::<T>(_s).map(bx).map_err(|e| e.to_string()));
                    #[allow(unreachable_code)]
                    None
                }
                fn to_cbor(&self, _h: &dyn HashObj) -> Option<Result<Vec<u8>, String>> {
                    #[cfg(feature = "t-serde")]
                    {
                        let mut out = Vec::new();
                        return Some(ciborium::into_writer(down(_h), &mut out).map(|_| out).map_err(|e| e.to_string()));
                    }
                    #[allow(unreachable_code)]
                    None
                }
                fn from_cbor(&self, _s: &[u8]) -> Option<Result<H, String>> {
                    #[cfg(feature = "t-serde")]
                    return Some(ciborium::from_reader::<T, _>(_s).map(bx).map_err(|e| e.to_string()));
                    #[allow(unreachable_code)]
                    None
                }
                fn to_postcard(&self, _h: &dyn HashObj) -> Option<Result<Vec<u8>, String>> {
                    #[cfg(feature = "t-serde")]
                    return Some(postcard::to_allocvec(down(_h)).map_err(|e| e.to_string()));
                    #[allow(unreachable_code)]
                    None
                }
                fn from_postcard(&self, _s: &[u8]) -> Option<Result<H, String>> {
                    #[cfg(feature = "t-serde")]
                    return Some(postcard::from_bytes::<T>(_s).map(bx).map_err(|e| e.to_string()));
                    #[allow(unreachable_code)]
                    None
                }
                fn mock_ser(&self, _h: &dyn HashObj, _human: bool) -> Option<SerRecord> {
                    #[cfg(feature = "t-serde")]
                    {
                        use serde::Serialize;
                        let s = vcheck::mockserde::MockSerializer { human: _human };
                        return Some(match down(_h).serialize(s) {
                            Ok(r) => r,
                            Err(e) => SerRecord::Other(format!("error: {}", e)),
                        });
                    }
                    #[allow(unreachable_code)]
                    None
                }
                fn mock_de_hint(&self, _human: bool) -> Option<String> {
                    #[cfg(feature = "t-serde")]
                    {
                        use serde::Deserialize;
                        let hint = Cell::new("");
                        let script = vcheck::mockserde::DeScript { human: _human, event: vcheck::mockserde::DeEvent::Unit };
                        let d = vcheck::mockserde::MockDeserializer::new(&script, &hint);
                        let _ = T::deserialize(d);
                        return Some(hint.get().to_string());
                    }
                    #[allow(unreachable_code)]
                    None
                }
                fn mock_de_allocs(&self, _script: &vcheck::mockserde::DeScript) -> Option<(bool, u64)> {
                    #[cfg(feature = "t-serde")]
                    {
                        use serde::Deserialize;
                        let hint = Cell::new("");
                        let d = vcheck::mockserde::MockDeserializer::new(_script, &hint);
                        vcheck::mockserde::QUIET_ERRORS.with(|q| q.set(true));
                        let before = alloc_count();
                        let r = T::deserialize(d);
                        let used = alloc_count() - before;
                        vcheck::mockserde::QUIET_ERRORS.with(|q| q.set(false));
                        return Some((r.is_ok(), used));
                    }
                    #[allow(unreachable_code)]
                    None
                }
                fn mock_de_in_place(&self, _script: &vcheck::mockserde::DeScript, _initial: &[u8]) -> Option<Result<H, String>> {
                    #[cfg(feature = "t-serde")]
                    {
                        use serde::Deserialize;
                        let hint = Cell::new("");
                        let d = vcheck::mockserde::MockDeserializer::new(_script, &hint);
                        let mut place = match T::try_from(_initial) {
                            Ok(p) => p,
                            Err(_) => return None,
                        };
                        let r = T::deserialize_in_place(d, &mut place).map(|()| bx(place)).map_err(|e| e.to_string());
                        return Some(r.map_err(|e| format!("{} [asked {}]", e, hint.get())));
                    }
                    #[allow(unreachable_code)]
                    None
                }
                fn mock_de(&self, _script: &vcheck::mockserde::DeScript) -> Option<Result<H, String>> {
                    #[cfg(feature = "t-serde")]
                    {
                        use serde::Deserialize;
                        let hint = Cell::new("");
                        let d = vcheck::mockserde::MockDeserializer::new(_script, &hint);
                        let r = T::deserialize(d).map(bx).map_err(|e| e.to_string());
                        return Some(r.map_err(|e| format!("{} [asked {}]", e, hint.get())));
                    }
                    #[allow(unreachable_code)]
                    None
                }
                fn noalloc_exec(&self, prog: &Program, rep: &mut Report) {
                    let mut gen = Gen::new();
                    let mut a: Option<T> = None;
                    let mut b: Option<T> = None;
                    let mut buf = [0u8; 512];
                    let mut digest: u64 = 0;
                    for (i, op) in prog.ops.iter().enumerate().take(MAX_OPS) {
                        let before = alloc_count();
                        match op {
                            Op::New => gen = Gen::new(),
                            Op::Update(k) => gen.update(&prog.pieces[*k]),
                            Op::FinalizeAll => {
                                for oi in 0..32 {
                                    match gen.finalize_with_options(&mk_opts(Opts::from_index(oi))) {
                                        Ok(h) => {
                                            rep.finalize_ok += 1;
                                            b = a.take();
                                            a = Some(h);
                                        }
                                        Err(_) => rep.finalize_err += 1,
                                    }
                                }
                            }
                            Op::Finalize(oi) => match gen.finalize_with_options(&mk_opts(Opts::from_index(*oi as usize % 32))) {
                                Ok(h) => {
                                    rep.finalize_ok += 1;
                                    b = a.take();
                                    a = Some(h);
                                }
                                Err(_) => rep.finalize_err += 1,
                            },
                            Op::ProcessedLen => digest ^= gen.processed_len().unwrap_or(7) as u64,
                            Op::CloneGen => gen = gen.clone(),
                            Op::ParseStr(k, p) => match T::from_str_bytes(&prog.texts[*k], p.map(prefix)) {
                                Ok(h) => {
                                    rep.parse_ok += 1;
                                    b = a.take();
                                    a = Some(h);
                                }
                                Err(_) => rep.parse_err += 1,
                            },
                            Op::TryFromSlice(k) => match T::try_from(prog.bins[*k].as_slice()) {
                                Ok(h) => {
                                    rep.parse_ok += 1;
                                    b = a.take();
                                    a = Some(h);
                                }
                                Err(_) => rep.parse_err += 1,
                            },
                            Op::StoreBytes(l) => {
                                if let Some(h) = &a {
                                    match h.store_into_bytes(&mut buf[..(*l).min(512)]) {
                                        Ok(n) => {
                                            rep.store_ok += 1;
                                            digest ^= buf[n / 2] as u64;
                                        }
                                        Err(_) => rep.store_err += 1,
                                    }
                                }
                            }
                            Op::StoreStr(p, l) => {
                                if let Some(h) = &a {
                                    match h.store_into_str_bytes(&mut buf[..(*l).min(512)], prefix(*p)) {
                                        Ok(n) => {
                                            rep.store_ok += 1;
                                            digest ^= buf[n / 2] as u64;
                                        }
                                        Err(_) => rep.store_err += 1,
                                    }
                                }
                            }
                            Op::Compare(nl) => {
                                if let (Some(x), Some(y)) = (&a, &b) {
                                    digest = digest.wrapping_add(x.compare_with_config(y, config(*nl)) as u64);
                                    rep.compares += 1;
                                }
                            }
                            Op::ClearChecksum => {
                                if let Some(h) = &mut a {
                                    h.clear_checksum();
                                }
                            }
                            Op::Accessors => {
                                if let Some(h) = &a {
                                    digest ^= h.checksum().data()[0] as u64;
                                    digest ^= h.length().value() as u64;
                                    digest ^= (h.qratios().q1ratio() ^ h.qratios().q2ratio() ^ h.qratios().value()) as u64;
                                    digest ^= h.body().data()[0] as u64;
                                    for q in 0..$buckets {
                                        digest = digest.rotate_left(1) ^ h.body().quartile(q) as u64;
                                    }
                                    digest ^= h.checksum().is_valid() as u64 ^ h.length().is_valid() as u64;
                                }
                            }
                            Op::MaxDistance => digest ^= T::max_distance(config(false)) as u64 ^ T::max_distance(config(true)) as u64,
                            Op::ControlToString => {
                                if let Some(h) = &a {
                                    let s = h.to_string();
                                    digest ^= s.len() as u64;
                                }
                            }
                        }
                        rep.allocs[i] = alloc_count() - before;
                        rep.executed = i + 1;
                    }
                    rep.digest = digest;
                }
            }
        }
    };
}

variant!(v_short, tlsh::hashes::Short, vmodel::SHORT, 15, 12, 1, 48, distance_12_by, aggregate_48_by, tlsh_b_mapping_48);
variant!(v_normal, tlsh::hashes::Normal, vmodel::NORMAL, 35, 32, 1, 128, distance_32_by, aggregate_128_by, tlsh_b_mapping_256);
variant!(v_normal_lc, tlsh::hashes::NormalWithLongChecksum, vmodel::NORMAL_LC, 37, 32, 3, 128, distance_32_by, aggregate_128_by, tlsh_b_mapping_256);
variant!(v_long, tlsh::hashes::Long, vmodel::LONG, 67, 64, 1, 256, distance_64_by, aggregate_256_by, tlsh_b_mapping_256);
variant!(v_long_lc, tlsh::hashes::LongWithLongChecksum, vmodel::LONG_LC, 69, 64, 3, 256, distance_64_by, aggregate_256_by, tlsh_b_mapping_256);

static V_SHORT: v_short::VApi = v_short::VApi;
static V_NORMAL: v_normal::VApi = v_normal::VApi;
static V_NORMAL_LC: v_normal_lc::VApi = v_normal_lc::VApi;
static V_LONG: v_long::VApi = v_long::VApi;
static V_LONG_LC: v_long_lc::VApi = v_long_lc::VApi;

// ------------------------------------------------------------ global adapter

pub struct Api;

macro_rules! feats {
    ($($f:literal),* $(,)?) => {{
        let mut v: Vec<String> = Vec::new();
        $(if cfg!(feature = $f) { v.push($f[2..].to_string()); })*
        v
    }};
}

macro_rules! tfeats {
    ($($f:literal),* $(,)?) => {{
        let mut v: Vec<String> = Vec::new();
        $(if cfg!(target_feature = $f) { v.push($f.to_string()); })*
        v
    }};
}

impl GlobalApi for Api {
    fn caps(&self) -> Caps {
        let features = feats!(
            "t-std", "t-alloc", "t-easy-functions", "t-opt-default", "t-opt-embedded-default", "t-simd", "t-simd-per-arch",
            "t-detect-features", "t-unsafe", "t-strict-parser", "t-serde", "t-serde-buffered", "t-opt-simd-body-comparison",
            "t-opt-simd-bucket-aggregation", "t-opt-simd-parse-hex", "t-opt-simd-convert-hex", "t-opt-dist-length-table",
            "t-opt-dist-qratios-table", "t-opt-dist-qratios-table-double", "t-opt-pearson-table-double", "t-opt-low-memory-buckets",
            "t-opt-low-memory-hex-str-decode-half-table", "t-opt-low-memory-hex-str-decode-quarter-table",
            "t-opt-low-memory-hex-str-decode-min-table", "t-opt-low-memory-hex-str-encode-half-table",
            "t-opt-low-memory-hex-str-encode-min-table",
        );
        Caps {
            config: std::env::var("VERIF_CONFIG_NAME").unwrap_or_else(|_| "unnamed".into()),
            features,
            target_features: tfeats!("sse2", "ssse3", "sse4.1", "avx2"),
            std: cfg!(feature = "t-std"),
            easy: cfg!(feature = "t-easy-functions"),
            serde: cfg!(feature = "t-serde"),
            serde_buffered: cfg!(feature = "t-serde-buffered"),
            strict: cfg!(feature = "t-strict-parser"),
            unsafe_: cfg!(feature = "t-unsafe"),
            hooks: cfg!(fast_tlsh_verif),
            debug_assertions: cfg!(debug_assertions),
            low_memory_buckets: cfg!(feature = "t-opt-low-memory-buckets"),
        }
    }
    fn variants(&self) -> Vec<&dyn VariantApi> {
        vec![&V_SHORT, &V_NORMAL, &V_NORMAL_LC, &V_LONG, &V_LONG_LC]
    }
    fn len_new(&self, n: u32) -> Option<u8> {
        FuzzyHashLengthEncoding::new(n).map(|x| x.value())
    }
    fn len_try_from(&self, n: u32) -> Result<u8, PErr> {
        FuzzyHashLengthEncoding::try_from(n).map(|x| x.value()).map_err(perr)
    }
    fn len_range(&self, code: u8) -> Option<(u32, u32)> {
        // there is no public constructor from a raw code: parse it from a hash
        let mut b = [0u8; 35];
        b[1] = code;
        let h = tlsh::hashes::Normal::try_from(&b).ok()?;
        h.length().range().map(|r| (*r.start(), *r.end()))
    }
    fn len_is_valid(&self, code: u8) -> bool {
        let mut b = [0u8; 35];
        b[1] = code;
        match tlsh::hashes::Normal::try_from(&b) {
            Ok(h) => h.length().is_valid(),
            // strict parser builds refuse invalid codes at construction
            Err(_) => false,
        }
    }
    fn len_compare(&self, a: u8, b: u8) -> u32 {
        let mut x = [0u8; 35];
        let mut y = [0u8; 35];
        x[1] = a;
        y[1] = b;
        match (tlsh::hashes::Normal::try_from(&x), tlsh::hashes::Normal::try_from(&y)) {
            (Ok(x), Ok(y)) => x.length().compare(y.length()),
            _ => u32::MAX,
        }
    }
    fn len_max_distance(&self) -> u32 {
        FuzzyHashLengthEncoding::MAX_DISTANCE
    }
    fn q_max_distance(&self) -> u32 {
        tlsh::hash::qratios::FuzzyHashQRatios::MAX_DISTANCE
    }
    fn len_sweep(&self, start: u32, out: &mut [u16]) {
        for (i, o) in out.iter_mut().enumerate() {
            let n = start.wrapping_add(i as u32);
            let a = FuzzyHashLengthEncoding::new(n);
            let t = FuzzyHashLengthEncoding::try_from(n);
            let mut r: u16 = match a {
                Some(x) => x.value() as u16,
                None => 0x100,
            };
            match (&a, &t) {
                (Some(x), Ok(y)) => {
                    if x.value() != y.value() {
                        r |= 0x200
                    }
                }
                (None, Err(e)) => {
                    if *e != ParseError::LengthIsTooLarge {
                        r |= 0x400
                    }
                }
                _ => r |= 0x200,
            }
            *o = r;
        }
    }
    fn validity_is_err(&self, v: Validity) -> bool {
        validity_back(v).is_err()
    }
    fn validity_is_err_on(&self, v: Validity, conservative: bool) -> bool {
        validity_back(v).is_err_on(if conservative { DataLengthProcessingMode::Conservative } else { DataLengthProcessingMode::Optimistic })
    }
    fn compare_normal(&self, _l: &str, _r: &str) -> Option<Result<u32, (Side, PErr)>> {
        #[cfg(feature = "t-easy-functions")]
        return Some(tlsh::compare(_l, _r).map_err(side_err));
        #[allow(unreachable_code)]
        None
    }
    fn hash_buf_normal(&self, _d: &[u8]) -> Option<Result<H, GErr>> {
        #[cfg(feature = "t-easy-functions")]
        return Some(tlsh::hash_buf(_d).map(|h| Box::new(v_normal::HObj(h)) as H).map_err(gerr));
        #[allow(unreachable_code)]
        None
    }
    fn hash_stream_normal(&self, _r: &mut dyn Read) -> Option<Result<H, StreamErr>> {
        #[cfg(all(feature = "t-easy-functions", feature = "t-std"))]
        {
            let mut r = _r;
            return Some(tlsh::hash_stream(&mut r).map(|h| Box::new(v_normal::HObj(h)) as H).map_err(stream_err));
        }
        #[allow(unreachable_code)]
        None
    }
    fn hash_file_normal(&self, _p: &Path) -> Option<Result<H, StreamErr>> {
        #[cfg(all(feature = "t-easy-functions", feature = "t-std"))]
        return Some(tlsh::hash_file(_p).map(|h| Box::new(v_normal::HObj(h)) as H).map_err(stream_err));
        #[allow(unreachable_code)]
        None
    }
    fn io_error_with_generator_payload(&self, kind: std::io::ErrorKind, which: u8) -> std::io::Error {
        #[cfg(feature = "t-std")]
        {
            use GeneratorError as E;
            let e = [E::TooSmallInput, E::TooLargeInput, E::BucketsAreHalfEmpty, E::BucketsAreThreeQuarterEmpty][which as usize % 4];
            return std::io::Error::new(kind, e);
        }
        #[allow(unreachable_code)]
        std::io::Error::new(kind, format!("verif-hard-error-payload-{}", which))
    }
    fn gerr_category(&self, e: GErr) -> GCat {
        let g = match e {
            GErr::TooLarge => GeneratorError::TooLargeInput,
            GErr::TooSmall => GeneratorError::TooSmallInput,
            GErr::HalfEmpty => GeneratorError::BucketsAreHalfEmpty,
            GErr::ThreeQuarterEmpty => GeneratorError::BucketsAreThreeQuarterEmpty,
            GErr::Unknown => return GCat::Unknown,
        };
        match g.category() {
            tlsh::GeneratorErrorCategory::DataLength => GCat::DataLength,
            tlsh::GeneratorErrorCategory::DataDistribution => GCat::DataDistribution,
            _ => GCat::Unknown,
        }
    }
    fn error_displays(&self) -> Vec<String> {
        let mut v = vec![
            ParseError::LengthIsTooLarge.to_string(),
            ParseError::InvalidPrefix.to_string(),
            ParseError::InvalidCharacter.to_string(),
            ParseError::InvalidStringLength.to_string(),
            ParseError::InvalidChecksum.to_string(),
            OperationError::BufferIsTooSmall.to_string(),
            GeneratorError::TooLargeInput.to_string(),
            GeneratorError::TooSmallInput.to_string(),
            GeneratorError::BucketsAreHalfEmpty.to_string(),
            GeneratorError::BucketsAreThreeQuarterEmpty.to_string(),
        ];
        #[cfg(feature = "t-easy-functions")]
        {
            if let Err(e) = tlsh::compare("x", "y") {
                v.push(e.to_string());
            }
        }
        v
    }
    fn alloc_count(&self) -> u64 {
        alloc_count()
    }
}

/// The adapter instance.
pub static API: Api = Api;
