//! The probe binary: see `lib.rs` (adapter) and `vcheck` (checks).

fn main() {
    let code = vcheck::probe_main(&probe::API);
    std::process::exit(code);
}
