//! C11 — oversized and > 4 GiB inputs are rejected cleanly; the fed length is reported exactly.

use super::common::*;
use super::{CheckResult, Sub};
use crate::api::*;
use crate::ctx::{catch, fnv, fnv_mix, CaseStats, Ctx};
use crate::gens::{BucketClass, LenClass, StateSpec, Xs};
use proptest::collection::vec;
use proptest::prelude::*;
use serde_json::{json, Value};
use std::cell::Cell;

pub const MAX: u64 = vmodel::MAX_LEN;
pub const TWO32: u64 = 1 << 32;

pub fn subs() -> Vec<Sub> {
    vec![
        Sub { name: "marks", run: run_marks },
        Sub { name: "history", run: run_history },
        Sub { name: "streams", run: run_streams },
        Sub { name: "hugeslice", run: run_hugeslice },
    ]
}

#[derive(Debug, Clone, PartialEq, Eq, serde::Serialize, serde::Deserialize)]
pub struct Cross {
    /// total bytes "already consumed" by the injected start state (4..=u32::MAX)
    pub start: u64,
    pub seed: u64,
    pub plausible: bool,
    /// piece lengths fed after the start
    pub pieces: Vec<usize>,
}

fn start_state(v: vmodel::Variant, c: &Cross) -> GenState {
    let spec = StateSpec {
        buckets: if c.plausible { BucketClass::Plausible } else { BucketClass::Uniform },
        len: LenClass::Exact(c.start.min(u32::MAX as u64) as u32),
        seed: c.seed,
    };
    spec.render(v)
}

/// Observations after every piece of a history that starts at an injected state.
pub fn case_cross(va: &dyn VariantApi, c: &Cross, st: &CaseStats) -> Result<(), String> {
    let v = va.v();
    let gs = start_state(v, c);
    let mut g = va.gen_from_state(&gs).ok_or("hook gen_from_state not available")?;
    let mut m = model_from_state(v, &gs);
    let mut n: u64 = gs.len as u64 + 4;
    let mut rng = Xs::new(c.seed ^ 0xC11);
    let mut straddles = false;
    observe(va, g.as_ref(), &m, n, "start", st)?;
    for (pi, &pl) in c.pieces.iter().enumerate() {
        let piece: Vec<u8> = (0..pl).map(|_| rng.byte()).collect();
        let before = n;
        catch(|| g.update(&piece)).map_err(|p| format!("{}: update with {} bytes at n={} panicked: {}", v.name, pl, before, p))?;
        m.update(&piece);
        n += pl as u64;
        for mark in [MAX, TWO32 - 1] {
            if before <= mark && n > mark && pl > 0 {
                straddles = true;
            }
        }
        observe(va, g.as_ref(), &m, n, &format!("after piece #{} of {} bytes", pi, pl), st)?;
    }
    if straddles {
        let mut d = fnv_mix(fnv(v.name.as_bytes()), c.start);
        for p in &c.pieces {
            d = fnv_mix(d, *p as u64);
        }
        st.nontrivial(fnv_mix(d, c.seed));
        st.class("history straddles a mark");
    } else if n <= MAX {
        st.class("history stays at or below MAX");
    } else {
        st.class("history starts above the mark");
    }
    Ok(())
}

fn observe(va: &dyn VariantApi, g: &dyn GenObj, m: &vmodel::Gen, n: u64, what: &str, st: &CaseStats) -> Result<(), String> {
    let v = va.v();
    st.eval();
    let want_len = if n < TWO32 { Some(n as u32) } else { None };
    let got_len = catch(|| g.processed_len()).map_err(|p| format!("{}: processed_len panicked: {}", v.name, p))?;
    if got_len != want_len {
        return Err(format!("{}: {}: processed_len() = {:?} but {} bytes were fed (expected {:?})", v.name, what, got_len, n, want_len));
    }
    for oi in 0..32 {
        let o = Opts::from_index(oi);
        let r = catch(|| g.finalize(o)).map_err(|p| format!("{}: {}: finalize at n={} panicked: {}", v.name, what, n, p))?;
        st.eval();
        if n > MAX {
            if !matches!(r, Err(GErr::TooLarge)) {
                return Err(format!("{}: {}: {} bytes fed (> {}) but finalize({}) = {:?}", v.name, what, n, MAX, opt_name(oi), r.map(|h| h.display())));
            }
        } else {
            if matches!(r, Err(GErr::TooLarge)) {
                return Err(format!("{}: {}: only {} bytes fed (<= {}) but finalize({}) reports TooLargeInput", v.name, what, n, MAX, opt_name(oi)));
            }
            compare_result(&format!("{}: {}: finalize({}) at n={}", v.name, what, opt_name(oi), n), &r, &m.finalize(o))?;
            if n == MAX {
                if let Ok(h) = &r {
                    if h.lvalue() != 169 {
                        return Err(format!("{}: exactly {} bytes must give length code 169, got {}", v.name, MAX, h.lvalue()));
                    }
                }
            }
        }
    }
    // state read-back wherever the state is observable through a successful finalize
    if n <= MAX {
        if let Some(s) = g.state() {
            let k = s.buckets.len().min(256);
            if s.buckets[..k] != m.a_bucket[..k] {
                let i = (0..k).find(|&i| s.buckets[i] != m.a_bucket[i]).unwrap();
                return Err(format!("{}: {}: bucket {} = {} but the reference counter = {} (n={})", v.name, what, i, s.buckets[i], m.a_bucket[i], n));
            }
            if s.checksum[..] != m.checksum[..v.ck] {
                return Err(format!("{}: {}: checksum state {:?} != reference {:?}", v.name, what, s.checksum, &m.checksum[..v.ck]));
            }
            let (t, tl) = m.tail();
            if (s.tail, s.tail_len) != (t, tl) && n >= 4 {
                return Err(format!("{}: {}: tail {:?}/{} != reference {:?}/{}", v.name, what, s.tail, s.tail_len, t, tl));
            }
            if s.len as u64 + s.tail_len as u64 != n {
                return Err(format!("{}: {}: len+tail_len = {} != {}", v.name, what, s.len as u64 + s.tail_len as u64, n));
            }
        }
    }
    Ok(())
}

/// Completely enumerated: histories starting 16 bytes before each mark with
/// pieces p0 in 0..=24, p1 in 0..=9, p2 in 0..=9.
fn run_marks(ctx: &Ctx) -> CheckResult {
    if !ctx.api.caps().hooks {
        ctx.skipped("marks: built without hooks");
        return Ok(());
    }
    let live = Cell::new(true);
    let vs = ctx.api.variants();
    let mut jobs = Vec::new();
    for (vi, _) in vs.iter().enumerate() {
        for mark in [MAX, TWO32] {
            for p0 in 0..=24usize {
                jobs.push((vi, mark, p0));
            }
        }
    }
    let seed = ctx.seed;
    let results = par_map(ctx.threads, &jobs, |&(vi, mark, p0)| -> Result<(), (Cross, String)> {
        let st = CaseStats::null();
        for p1 in 0..=9usize {
            for p2 in 0..=9usize {
                let c = Cross { start: mark - 16, seed: seed ^ (p0 * 100 + p1 * 10 + p2) as u64, plausible: true, pieces: vec![p0, p1, p2, 7] };
                case_cross(vs[vi], &c, &st).map_err(|m| (c.clone(), m))?;
            }
        }
        Ok(())
    });
    {
        let mut ev = ctx.ev.borrow_mut();
        ev.evaluations += jobs.len() as u64 * 100 * 5 * 33;
        ev.nontrivial_enumerated += jobs.len() as u64 * 100;
    }
    ctx.subcheck("marks", jobs.len() as u64 * 100);
    for (j, r) in jobs.iter().zip(results) {
        if let Err((c, m)) = r {
            return Err(ctx.violation("cross", m, json!({"variant": vs[j.0].v().name, "cross": c})));
        }
    }
    let _ = live;
    ctx.exhaustive("start 16 bytes before each mark (4,224,281,216 and 2^32) x pieces p0 in 0..=24, p1 in 0..=9, p2 in 0..=9, then 7 more bytes");
    ctx.ev.borrow_mut().sample(json!({"check": "marks", "start": MAX - 16, "pieces": [16, 1, 3, 7]}));
    Ok(())
}

fn cross_strategy() -> impl Strategy<Value = Cross> {
    let piece = prop_oneof![4 => 0usize..=9, 2 => 10usize..=1000, 1 => 1000usize..=70_000, 1 => Just(1usize << 20)];
    (prop_oneof![Just(MAX), Just(TWO32)], 0u64..=5000, any::<u64>(), any::<bool>(), vec(piece, 1..8), 0usize..3).prop_map(
        |(mark, k, seed, plausible, mut pieces, extra)| {
            let start = (mark - k).min(u32::MAX as u64);
            // make sure most histories actually reach the mark
            let sum: usize = pieces.iter().sum();
            if (sum as u64) < mark - start && extra > 0 {
                pieces.push((mark - start) as usize - sum + extra - 1);
            }
            Cross { start, seed, plausible, pieces }
        },
    )
}

fn run_history(ctx: &Ctx) -> CheckResult {
    if !ctx.api.caps().hooks {
        ctx.skipped("history: built without hooks");
        return Ok(());
    }
    let cases = ctx.tier.pick(250u32, 5000);
    for va in ctx.api.variants() {
        let v = va.v();
        ctx.pt_run(
            "cross",
            &format!("history/{}", v.name),
            cases,
            cross_strategy(),
            |c: &Cross| json!({"variant": v.name, "cross": c}),
            |c: &Cross, st: &CaseStats| {
                st.sample(|| json!({"check": "history", "variant": v.name, "cross": c}));
                case_cross(va, c, st)
            },
        )?;
    }
    Ok(())
}

/// Thorough: one real stream of 2^32 + 10,007 bytes per variant, implementation and
/// model in lock step; confirms that injected states equal streamed states.
fn run_streams(ctx: &Ctx) -> CheckResult {
    if ctx.tier == crate::ctx::Tier::Quick {
        ctx.skipped("streams: thorough tier only (feeds > 4 GiB per variant)");
        return Ok(());
    }
    let vs = ctx.api.variants();
    let idx: Vec<usize> = (0..vs.len()).collect();
    let seed = ctx.seed;
    let results = par_map(ctx.threads, &idx, |&vi| -> Result<u64, String> {
        let va = vs[vi];
        let v = va.v();
        let st = CaseStats::null();
        let mut g = va.generator();
        let mut m = vmodel::Gen::new(v);
        let mut rng = Xs::new(seed ^ vi as u64);
        let mut n: u64 = 0;
        let total = TWO32 + 10_007;
        let mut obs = 0u64;
        let mut buf = vec![0u8; 64 << 20];
        while n < total {
            // piece sizes: big far from the marks, small near them
            let dist = [MAX, TWO32].iter().map(|&k| if n <= k { k - n } else { u64::MAX }).min().unwrap();
            let want: u64 = if dist > (65 << 20) {
                (1 + rng.below(64)) << 20
            } else if dist > 4096 {
                (dist - 2048).min(64 << 20)
            } else {
                1 + rng.below(9)
            };
            let len = want.min(total - n) as usize;
            // content by variant: constant / period 2 streams drive a handful of counters past
            // 2^31 and, for the constant stream, past 2^32 (wrapping) with REAL data; the others
            // are periodic with noise (uneven counters around 10^8)
            match vi {
                0 => buf[..len].iter_mut().for_each(|b| *b = 0x41),
                3 => buf[..len].iter_mut().enumerate().for_each(|(i, b)| *b = if (n as usize + i) % 2 == 0 { 0xa4 } else { 0x0e }),
                _ => {
                    for (i, b) in buf[..len].iter_mut().enumerate() {
                        *b = ((n as usize + i) % 251) as u8 ^ ((i >> 9) as u8);
                    }
                }
            }
            g.update(&buf[..len]);
            m.update(&buf[..len]);
            n += len as u64;
            let near = [MAX, TWO32].iter().any(|&k| n + 4200 >= k && n <= k + 4200);
            if near || len > 4096 {
                observe(va, g.as_ref(), &m, n, &format!("real stream at {} bytes", n), &st)?;
                obs += 1;
            }
        }
        Ok(obs)
    });
    for (vi, r) in results.into_iter().enumerate() {
        match r {
            Ok(obs) => {
                let mut ev = ctx.ev.borrow_mut();
                ev.evaluations += obs * 33;
                ev.nontrivial_enumerated += 1;
                ev.class_n("real >4GiB stream observations", obs);
            }
            Err(m) => return Err(ctx.violation("streams", m, json!({"variant": vs[vi].v().name, "seed": seed}))),
        }
    }
    ctx.ev.borrow_mut().sample(json!({"check": "streams", "bytes_per_variant": TWO32 + 10_007}));
    Ok(())
}

/// Thorough: a single update with a slice longer than u32::MAX.
/// One `update` whose slice is longer than 2^32 bytes (all-zero slab, lazily mapped), after `pre`
/// bytes: the length is unknown afterwards, finalization is the too-large error under the most
/// permissive options, and further data does not make the length known again.
pub fn case_hugeslice(va: &dyn VariantApi, big: &[u8], pre: usize, len: usize, room: Option<u32>) -> Result<(), String> {
    let v = va.v();
    // `room`: an injected state (hook) with room for exactly this many more window positions, so
    // that the pass costs `room` bytes instead of 4 GiB; None = a fresh generator
    let mut g = match room {
        None => va.generator(),
        Some(k) => {
            let mut gs = StateSpec { buckets: BucketClass::Plausible, len: LenClass::Big, seed: k as u64 }.render(v);
            gs.len = (u32::MAX - 3) - k;
            va.gen_from_state(&gs).ok_or("hook gen_from_state not available")?
        }
    };
    g.update(&big[..pre]);
    let r = catch(|| {
        g.update(&big[..len]);
        (g.processed_len(), g.finalize(Opts::from_index(Opts::PERMISSIVE_INDEX)).map(|h| h.display()))
    });
    match r {
        Ok((None, Err(GErr::TooLarge))) => {}
        other => {
            return Err(format!(
                "{}{}: one update with {} bytes after {} bytes gave {:?}; expected processed_len None and TooLargeInput",
                v.name,
                room.map(|k| format!(" (injected state with room for {} more bytes)", k)).unwrap_or_default(),
                len,
                pre,
                other
            ))
        }
    }
    g.update(b"more");
    if g.processed_len().is_some() {
        return Err(format!("{}: processed_len became known again after a {}-byte update", v.name, len));
    }
    Ok(())
}

/// A reader that delivers `total` zero bytes and makes one read end exactly `cut` bytes before
/// the end (so that a read boundary falls exactly on a mark).
struct ZeroReader {
    left: u64,
    cut: u64,
    /// report this hard error instead of end of file once everything was delivered
    fail_at_end: bool,
}
impl std::io::Read for ZeroReader {
    fn read(&mut self, buf: &mut [u8]) -> std::io::Result<usize> {
        let mut n = (buf.len() as u64).min(self.left);
        if self.left > self.cut {
            n = n.min(self.left - self.cut);
        }
        if n == 0 && self.left == 0 && self.fail_at_end && !buf.is_empty() {
            return Err(std::io::Error::new(std::io::ErrorKind::Other, "verif-hard-error-after-the-mark"));
        }
        buf[..n as usize].fill(0);
        self.left -= n;
        Ok(n as usize)
    }
}

/// A reader that delivers more than MAX bytes and THEN reports a hard I/O error: the error is
/// returned as an I/O error and no hash or generator error is produced (the helper may not stop
/// listening to the reader once the data is too large anyway).
pub fn case_hugestream_error(va: &dyn VariantApi) -> Result<(), String> {
    let v = va.v();
    let mut rd = ZeroReader { left: MAX + 4096, cut: 0, fail_at_end: true };
    let r = catch(|| va.hash_stream(&mut rd)).map_err(|p| format!("{}: hash_stream_for over {} bytes + error panicked: {}", v.name, MAX + 4096, p))?;
    match r {
        None => Ok(()),
        Some(Err(StreamErr::Io(e))) if e.kind() == std::io::ErrorKind::Other && e.to_string().contains("verif-hard-error-after-the-mark") => Ok(()),
        Some(other) => Err(format!(
            "{}: the reader delivered {} bytes and then reported a hard I/O error, but hash_stream_for returned {}",
            v.name,
            MAX + 4096,
            match other {
                Ok(h) => format!("the hash {}", h.display()),
                Err(StreamErr::Gen(g)) => format!("GeneratorError({:?})", g),
                Err(StreamErr::Io(e)) => format!("another I/O error {:?}", e),
            }
        )),
    }
}

/// The file helper on a (sparse) regular file of MAX + extra bytes: too large exactly when extra > 0.
pub fn case_hugefile(va: &dyn VariantApi, extra: u64) -> Result<(), String> {
    let v = va.v();
    let dir = std::env::var("VERIF_SCRATCH").unwrap_or_else(|_| "/verif/build/tmp".into());
    std::fs::create_dir_all(&dir).map_err(|e| format!("scratch dir: {}", e))?;
    let path = std::path::Path::new(&dir).join(format!("c11-sparse-{}-{}-{}.bin", std::process::id(), v.name, extra));
    let made = std::fs::File::create(&path).and_then(|f| f.set_len(MAX + extra));
    if let Err(e) = made {
        let _ = std::fs::remove_file(&path);
        return Err(format!("cannot create the sparse scratch file: {}", e));
    }
    let r = catch(|| va.hash_file(&path));
    let _ = std::fs::remove_file(&path);
    let r = r.map_err(|p| format!("{}: hash_file_for on a file of {} bytes panicked: {}", v.name, MAX + extra, p))?;
    let Some(r) = r else { return Ok(()) };
    if let Err(StreamErr::Io(e)) = &r {
        return Err(format!("{}: hash_file_for on a sparse file of {} bytes returned the I/O error {:?}", v.name, MAX + extra, e));
    }
    if matches!(r, Err(StreamErr::Gen(GErr::TooLarge))) != (extra > 0) {
        return Err(format!(
            "{}: hash_file_for on a file of {} bytes (MAX + {}) returned {}; too-large is {}",
            v.name,
            MAX + extra,
            extra,
            match r {
                Ok(h) => h.display(),
                Err(StreamErr::Gen(g)) => format!("{:?}", g),
                Err(StreamErr::Io(e)) => format!("{:?}", e.kind()),
            },
            if extra > 0 { "expected" } else { "not expected" }
        ));
    }
    Ok(())
}

/// The stream helper over MAX + extra bytes, with a read boundary exactly at MAX: too large
/// exactly when extra > 0 (the helper may not stop reading at the mark and call it a day).
pub fn case_hugestream(va: &dyn VariantApi, extra: u64) -> Result<(), String> {
    let v = va.v();
    let mut rd = ZeroReader { left: MAX + extra, cut: extra, fail_at_end: false };
    let r = catch(|| va.hash_stream(&mut rd)).map_err(|p| format!("{}: hash_stream_for over {} bytes panicked: {}", v.name, MAX + extra, p))?;
    let Some(r) = r else { return Ok(()) };
    let too_large = matches!(r, Err(StreamErr::Gen(GErr::TooLarge)));
    if let Err(StreamErr::Io(e)) = &r {
        return Err(format!("{}: hash_stream_for over {} zero bytes returned the I/O error {:?}", v.name, MAX + extra, e.kind()));
    }
    if too_large != (extra > 0) {
        return Err(format!(
            "{}: hash_stream_for over {} bytes (MAX {} {}, one read ending exactly at MAX) returned {}; too-large is {}",
            v.name,
            MAX + extra,
            if extra > 0 { "+" } else { "+" },
            extra,
            match r {
                Ok(h) => h.display(),
                Err(StreamErr::Gen(g)) => format!("{:?}", g),
                Err(StreamErr::Io(e)) => format!("{:?}", e.kind()),
            },
            if extra > 0 { "expected" } else { "not expected" }
        ));
    }
    if rd.left != 0 && extra == 0 {
        return Err(format!("{}: hash_stream_for returned with {} bytes of the stream unread", v.name, rd.left));
    }
    Ok(())
}

/// The one-call helper over a buffer of exactly MAX (+ extra) zero bytes: too large exactly when
/// extra > 0; with exactly MAX bytes the outcome is what a generator fed the same bytes reports
/// under default options (`whole`: compare with it, one more pass).
pub fn case_hugebuf(va: &dyn VariantApi, big: &[u8], extra: usize, whole: bool) -> Result<(), String> {
    let v = va.v();
    let n = MAX as usize + extra;
    let r = catch(|| va.hash_buf(&big[..n])).map_err(|p| format!("{}: hash_buf_for over {} bytes panicked: {}", v.name, n, p))?;
    let Some(r) = r else { return Ok(()) };
    let shown = format!("{:?}", r.as_ref().map(|h| h.display()));
    if (r.as_ref().err() == Some(&GErr::TooLarge)) != (extra > 0) {
        return Err(format!("{}: hash_buf_for over {} bytes (MAX + {}) returned {}; too-large is {}", v.name, n, extra, shown, if extra > 0 { "expected" } else { "not expected" }));
    }
    if let Ok(h) = &r {
        if h.lvalue() != 169 {
            return Err(format!("{}: hash_buf_for over exactly MAX bytes carries length code {}", v.name, h.lvalue()));
        }
    }
    if whole && extra == 0 {
        let mut g = va.generator();
        g.update(&big[..1 << 31]);
        g.update(&big[1 << 31..n]);
        let want = format!("{:?}", g.finalize_default().map(|h| h.display()));
        if want != shown {
            return Err(format!("{}: hash_buf_for over exactly MAX bytes = {} but a generator fed the same bytes gives {}", v.name, shown, want));
        }
    }
    Ok(())
}

pub const HUGE: usize = (1usize << 32) + 4096;

fn run_hugeslice(ctx: &Ctx) -> CheckResult {
    let quick = ctx.tier == crate::ctx::Tier::Quick;
    // quick: everything in `default`; in `default@dbg` (overflow checks, debug assertions) only the
    // cheap injected-state jobs and ONE full pass: the stream helper over 2^32 + 4096 bytes (a
    // wrapper-local 32-bit counter is out of reach of injected generator states)
    let dbg_only = quick && ctx.config == "default@dbg";
    if quick && ctx.config != "default" && !dbg_only {
        ctx.skipped("hugeslice: quick tier runs it in the configurations default and default@dbg only");
        return Ok(());
    }
    let big = vec![0u8; HUGE];
    let vs = ctx.api.variants();
    let lens = [HUGE, (1 << 32) + 4, 1 << 32, HUGE - 1, (1 << 32) + 300];
    let mut jobs: Vec<(usize, usize, usize, Option<u32>)> = Vec::new();
    for i in 0..vs.len() {
        let hook = vs[i].gen_from_state(&StateSpec { buckets: BucketClass::Plausible, len: LenClass::Big, seed: 0 }.render(vs[i].v())).is_some();
        if hook {
            for (j, &k) in super::c03::ROOMS.iter().enumerate() {
                jobs.push((i, [0usize, 3, 10][j % 3], lens[(i + j) % 5], Some(k)));
            }
        }
        if quick {
            // one fresh generator per run (a full 4 GiB pass), rotating over variants and lengths
            if i == (ctx.seed % vs.len() as u64) as usize && !dbg_only {
                jobs.push((i, [3usize, 0, 10][(ctx.seed % 3) as usize], lens[(ctx.seed % 5) as usize], None));
            }
        } else {
            for pre in [0usize, 3, 10] {
                for len in [HUGE, (1 << 32) + 4, 1 << 32] {
                    jobs.push((i, pre, len, None));
                }
            }
        }
    }
    // stream jobs run concurrently with the slice jobs: (variant, extra bytes beyond MAX)
    let streams: Vec<(usize, u64)> = if !(ctx.api.caps().easy && ctx.api.caps().std) {
        vec![]
    } else if dbg_only {
        // beyond 2^32 bytes, not only beyond MAX
        vec![(((ctx.seed + 3) % vs.len() as u64) as usize, (1u64 << 32) + 4096 - MAX)]
    } else if quick {
        vec![(((ctx.seed + 1) % vs.len() as u64) as usize, 1)]
    } else {
        (0..vs.len()).flat_map(|i| [(i, 1u64), (i, 0), (i, 1 << 20), (i, (1u64 << 32) + 4096 - MAX)]).collect()
    };
    for &(i, extra) in &streams {
        jobs.push((i, usize::MAX, extra as usize, None));
    }
    // one-call helper jobs: (variant, usize::MAX - 1, extra, _)
    if ctx.api.caps().easy && !dbg_only {
        if quick {
            let i = ((ctx.seed + 2) % vs.len() as u64) as usize;
            jobs.push((i, usize::MAX - 1, 0, None));
            jobs.push(((i + 1) % vs.len(), usize::MAX - 1, 1, None));
        } else {
            for i in 0..vs.len() {
                jobs.push((i, usize::MAX - 1, 0, Some(1)));
                jobs.push((i, usize::MAX - 1, 1, None));
            }
        }
    }
    // stream-then-error (pre = usize::MAX - 2) and sparse-file (pre = usize::MAX - 3) jobs
    if ctx.api.caps().easy && ctx.api.caps().std && !dbg_only {
        if quick {
            jobs.push((((ctx.seed + 4) % vs.len() as u64) as usize, usize::MAX - 2, 0, None));
            jobs.push((((ctx.seed + 5) % vs.len() as u64) as usize, usize::MAX - 3, 1000, None));
        } else {
            for i in 0..vs.len() {
                jobs.push((i, usize::MAX - 2, 0, None));
                jobs.push((i, usize::MAX - 3, 1, None));
                jobs.push((i, usize::MAX - 3, 0, None));
            }
        }
    }
    let res = par_map(ctx.threads, &jobs, |&(i, pre, len, room)| {
        if pre == usize::MAX - 2 {
            case_hugestream_error(vs[i])
        } else if pre == usize::MAX - 3 {
            case_hugefile(vs[i], len as u64)
        } else if pre == usize::MAX {
            case_hugestream(vs[i], len as u64)
        } else if pre == usize::MAX - 1 {
            case_hugebuf(vs[i], &big, len, room.is_some())
        } else {
            case_hugeslice(vs[i], &big, pre, len, room)
        }
    });
    for (&(i, pre, len, room), r) in jobs.iter().zip(res) {
        ctx.ev.borrow_mut().evaluations += 1;
        ctx.ev.borrow_mut().nontrivial_enumerated += 1;
        if let Err(m) = r {
            if pre == usize::MAX {
                return Err(ctx.violation("hugestream", m, json!({"variant": vs[i].v().name, "extra": len})));
            }
            if pre == usize::MAX - 2 {
                return Err(ctx.violation("hugestream-error", m, json!({"variant": vs[i].v().name})));
            }
            if pre == usize::MAX - 3 {
                return Err(ctx.violation("hugefile", m, json!({"variant": vs[i].v().name, "extra": len})));
            }
            if pre == usize::MAX - 1 {
                return Err(ctx.violation("hugebuf", m, json!({"variant": vs[i].v().name, "extra": len})));
            }
            return Err(ctx.violation("hugeslice", m, json!({"variant": vs[i].v().name, "pre": pre, "len": len, "room": room})));
        }
    }
    if !quick {
        // the one-call helper with a buffer longer than 2^32 bytes: too large, no panic
        let res = par_map(ctx.threads, &vs, |va| catch(|| va.hash_buf(&big)));
        for (va, r) in vs.iter().zip(res) {
            ctx.ev.borrow_mut().evaluations += 1;
            match r {
                Ok(None) | Ok(Some(Err(GErr::TooLarge))) => {}
                other => {
                    let m = format!("{}: hash_buf_for over {} bytes gave {:?}; expected TooLargeInput", va.v().name, big.len(), other.map(|o| o.map(|r| r.map(|h| h.display()))));
                    return Err(ctx.violation("hugeslice", m, json!({"variant": va.v().name, "pre": 0, "len": HUGE, "room": null})));
                }
            }
        }
    }
    ctx.ev.borrow_mut().sample(json!({"check": "hugeslice", "slice_lens": "2^32, 2^32+4, 2^32+300, 2^32+4095, 2^32+4096", "jobs": jobs.len()}));
    Ok(())
}

pub fn replay(ctx: &Ctx, check: &str, case: &Value) -> Result<(), String> {
    let live = Cell::new(true);
    let st = ctx.stats("replay", &live);
    let va = super::codec::variant_of(ctx.api, case)?;
    match check {
        "cross" | "marks" | "history" => {
            let c: Cross = serde_json::from_value(case.get("cross").cloned().ok_or("no cross")?).map_err(|e| e.to_string())?;
            case_cross(va, &c, &st)
        }
        "hugebuf" => case_hugebuf(va, &vec![0u8; HUGE], case.get("extra").and_then(|x| x.as_u64()).unwrap_or(0) as usize, true),
        "hugestream-error" => case_hugestream_error(va),
        "hugefile" => case_hugefile(va, case.get("extra").and_then(|x| x.as_u64()).unwrap_or(1)),
        "hugestream" => case_hugestream(va, case.get("extra").and_then(|x| x.as_u64()).unwrap_or(1)),
        "hugeslice" => {
            let pre = case.get("pre").and_then(|x| x.as_u64()).unwrap_or(0) as usize;
            let len = case.get("len").and_then(|x| x.as_u64()).unwrap_or(HUGE as u64) as usize;
            let room = case.get("room").and_then(|x| x.as_u64()).map(|x| x as u32);
            case_hugeslice(va, &vec![0u8; HUGE], pre, len.min(HUGE), room)
        }
        _ => Err(format!("check {} is replayed by re-running the thorough tier", check)),
    }
}
