//! C14 — serializers respect the caller's buffer.

use super::codec::*;
use super::{CheckResult, Sub};
use crate::ctx::{fnv, fnv_mix, hex, Ctx};
use proptest::prelude::*;
use serde_json::{json, Value};
use std::cell::Cell;

pub fn subs() -> Vec<Sub> {
    vec![Sub { name: "buffers", run: run_buffers }, Sub { name: "hugebuf", run: run_hugebuf }]
}

/// hashes x 3 forms x every buffer length 0..=N+64 x prefill kinds.
fn run_buffers(ctx: &Ctx) -> CheckResult {
    let live = Cell::new(true);
    let st = ctx.stats("buffers", &live);
    let n_hashes = ctx.tier.pick(40usize, 400);
    for va in ctx.api.variants() {
        let v = va.v();
        let hashes = ctx.sample_values(&format!("hashes/{}", v.name), n_hashes, &(crate::gens::hash_bytes_strategy(v), any::<u64>()));
        for (hi, (b, seed)) in hashes.iter().enumerate() {
            for form in FORMS {
                let n = match form {
                    Form::Bytes => v.size(),
                    Form::Hex => v.len_hex(),
                    Form::HexPrefix => v.len_str(),
                };
                for l in 0..=n + 64 {
                    let kind = ((hi + l) % 4) as u8;
                    if let Err(m) = case_buffer(va, b, form, l, kind, *seed ^ l as u64, &st) {
                        return Err(ctx.violation(
                            "buffers",
                            m,
                            json!({"variant": v.name, "bytes": hex(b), "form": form, "len": l, "fill_kind": kind, "seed": *seed ^ l as u64}),
                        ));
                    }
                    st.nontrivial(fnv_mix(fnv_mix(fnv(v.name.as_bytes()), fnv(b)), (l as u64) << 8 | form as u64));
                }
            }
            st.sample(|| json!({"check": "buffers", "variant": v.name, "bytes": hex(b), "forms": 3, "buffer_lengths": format!("0..={}+64", v.len_str())}));
        }
    }
    ctx.exhaustive("all buffer lengths 0..=N+64 for each of the three forms");
    Ok(())
}

/// Buffer lengths that do not fit in 32 bits: a lazily mapped all-zero slab of 2^32 + 4096
/// bytes (virtual memory only); every form into slices of 2^32, 2^32 + n - 1, 2^32 + n and
/// 2^32 + 4096 bytes.  "At least the advertised size" must not be decided on a truncated length.
/// After each store the first n bytes are compared and cleared; the window after them and the
/// end of the slice must still be zero, and one full scan at the end finds any stray write.
pub fn case_hugebuf(va: &dyn crate::api::VariantApi, b: &[u8], slab: &mut [u8]) -> Result<u64, String> {
    let v = va.v();
    let h = va.try_from_array(b).map_err(|e| format!("{}: TryFrom rejected {} with {:?}", v.name, hex(b), e))?;
    let mut evals = 0;
    for form in FORMS {
        let (n, repr) = match form {
            Form::Bytes => (v.size(), b.to_vec()),
            Form::Hex => (v.len_hex(), vmodel::text::encode(v, b, false)),
            Form::HexPrefix => (v.len_str(), vmodel::text::encode(v, b, true)),
        };
        for l in [1usize << 32, (1usize << 32) + n - 1, (1usize << 32) + n, (1usize << 32) + 4096] {
            let buf = &mut slab[..l];
            evals += 1;
            let r = crate::ctx::catch(std::panic::AssertUnwindSafe(|| match form {
                Form::Bytes => h.store_bytes(buf),
                Form::Hex => h.store_str(buf, crate::api::Prefix::Empty),
                Form::HexPrefix => h.store_str(buf, crate::api::Prefix::WithVersion),
            }))
            .map_err(|p| format!("{}: store ({:?}) into a buffer of {} bytes panicked: {}", v.name, form, l, p))?;
            let buf = &mut slab[..l];
            match r {
                Ok(k) if k == n => {}
                other => return Err(format!("{}: store ({:?}) into a buffer of {} bytes (>= 2^32) returned {:?} instead of Ok({})", v.name, form, l, other, n)),
            }
            if buf[..n] != repr[..] {
                return Err(format!("{}: store ({:?}) into a buffer of {} bytes wrote {:?}", v.name, form, l, &buf[..n]));
            }
            if let Some(i) = (n..n + 8192).chain(l - 8192..l).find(|&i| buf[i] != 0) {
                return Err(format!("{}: store ({:?}) into a buffer of {} bytes modified byte {} beyond the advertised size {}", v.name, form, l, i, n));
            }
            buf[..n].fill(0);
        }
    }
    Ok(evals)
}

pub const HUGE: usize = (1usize << 32) + 4096;

fn run_hugebuf(ctx: &Ctx) -> CheckResult {
    if ctx.tier == crate::ctx::Tier::Quick && ctx.config != "default" {
        ctx.skipped("hugebuf: quick tier runs it in the default configuration only");
        return Ok(());
    }
    let mut slab = vec![0u8; HUGE];
    for va in ctx.api.variants() {
        let v = va.v();
        for b in ctx.sample_values(&format!("hugebuf/{}", v.name), 2, &crate::gens::hash_bytes_strategy(v)) {
            match case_hugebuf(va, &b, &mut slab) {
                Ok(n) => {
                    ctx.ev.borrow_mut().evaluations += n;
                    ctx.ev.borrow_mut().nontrivial_enumerated += n;
                }
                Err(m) => return Err(ctx.violation("hugebuf", m, json!({"variant": v.name, "bytes": hex(&b)}))),
            }
        }
    }
    // one full scan: nothing anywhere in the slab was written and left behind
    if let Some(i) = slab.chunks(1 << 20).position(|c| c.iter().any(|&x| x != 0)) {
        return Err(ctx.violation("hugebuf", format!("a stray write landed in MiB #{} of the 4 GiB slab", i), json!({"variant": "Normal", "bytes": hex(&vec![0u8; 35])})));
    }
    ctx.subcheck("hugebuf", 10);
    ctx.ev.borrow_mut().sample(json!({"check": "hugebuf", "buffer_lengths": "2^32, 2^32+n-1, 2^32+n, 2^32+4096", "forms": 3}));
    Ok(())
}

pub fn replay(ctx: &Ctx, check: &str, case: &Value) -> Result<(), String> {
    if check == "hugebuf" {
        let va = variant_of(ctx.api, case)?;
        return case_hugebuf(va, &bytes_of(case, "bytes")?, &mut vec![0u8; HUGE]).map(|_| ());
    }
    let live = Cell::new(true);
    let st = ctx.stats("replay", &live);
    let va = variant_of(ctx.api, case)?;
    let form: Form = serde_json::from_value(case.get("form").cloned().ok_or("form")?).map_err(|e| e.to_string())?;
    let g = |k: &str| case.get(k).and_then(|x| x.as_u64()).ok_or_else(|| k.to_string());
    case_buffer(va, &bytes_of(case, "bytes")?, form, g("len")? as usize, g("fill_kind")? as u8, g("seed")?, &st)
}
