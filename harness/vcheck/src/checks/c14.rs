//! C14 — serializers respect the caller's buffer.

use super::codec::*;
use super::{CheckResult, Sub};
use crate::ctx::{fnv, fnv_mix, hex, Ctx};
use proptest::prelude::*;
use serde_json::{json, Value};
use std::cell::Cell;

pub fn subs() -> Vec<Sub> {
    vec![Sub { name: "buffers", run: run_buffers }]
}

/// hashes x 3 forms x every buffer length 0..=N+64 x prefill kinds.
fn run_buffers(ctx: &Ctx) -> CheckResult {
    let live = Cell::new(true);
    let st = ctx.stats("buffers", &live);
    let n_hashes = ctx.tier.pick(40usize, 400);
    for va in ctx.api.variants() {
        let v = va.v();
        let hashes = ctx.sample_values(&format!("hashes/{}", v.name), n_hashes, &(crate::gens::hash_bytes_strategy(v), any::<u64>()));
        for (hi, (b, seed)) in hashes.iter().enumerate() {
            for form in FORMS {
                let n = match form {
                    Form::Bytes => v.size(),
                    Form::Hex => v.len_hex(),
                    Form::HexPrefix => v.len_str(),
                };
                for l in 0..=n + 64 {
                    let kind = ((hi + l) % 4) as u8;
                    if let Err(m) = case_buffer(va, b, form, l, kind, *seed ^ l as u64, &st) {
                        return Err(ctx.violation(
                            "buffers",
                            m,
                            json!({"variant": v.name, "bytes": hex(b), "form": form, "len": l, "fill_kind": kind, "seed": *seed ^ l as u64}),
                        ));
                    }
                    st.nontrivial(fnv_mix(fnv_mix(fnv(v.name.as_bytes()), fnv(b)), (l as u64) << 8 | form as u64));
                }
            }
            st.sample(|| json!({"check": "buffers", "variant": v.name, "bytes": hex(b), "forms": 3, "buffer_lengths": format!("0..={}+64", v.len_str())}));
        }
    }
    ctx.exhaustive("all buffer lengths 0..=N+64 for each of the three forms");
    Ok(())
}

pub fn replay(ctx: &Ctx, _check: &str, case: &Value) -> Result<(), String> {
    let live = Cell::new(true);
    let st = ctx.stats("replay", &live);
    let va = variant_of(ctx.api, case)?;
    let form: Form = serde_json::from_value(case.get("form").cloned().ok_or("form")?).map_err(|e| e.to_string())?;
    let g = |k: &str| case.get(k).and_then(|x| x.as_u64()).ok_or_else(|| k.to_string());
    case_buffer(va, &bytes_of(case, "bytes")?, form, g("len")? as usize, g("fill_kind")? as u8, g("seed")?, &st)
}
