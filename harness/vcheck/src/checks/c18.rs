//! C18 — core operations never allocate (counting global allocator).
//! The "builds without std and alloc" clause is a build predicate run by the driver.

use super::{CheckResult, Sub};
use crate::api::*;
use crate::ctx::{fnv, fnv_mix, hex, CaseStats, Ctx};
use crate::gens::{self, DataSpec, TextSpec};
use crate::noalloc::{Op, Program, Report, MAX_OPS};
use proptest::collection::vec;
use proptest::prelude::*;
use serde_json::{json, Value};
use std::cell::Cell;

pub fn subs() -> Vec<Sub> {
    vec![Sub { name: "sequences", run: run_sequences }, Sub { name: "firstcall", run: run_firstcall }, Sub { name: "serde", run: run_serde }]
}

fn op_strategy(n_pieces: usize, n_texts: usize, n_bins: usize, n: usize) -> impl Strategy<Value = Op> {
    let pfx = prop_oneof![Just(None), Just(Some(Prefix::Empty)), Just(Some(Prefix::WithVersion))];
    let p2 = prop_oneof![Just(Prefix::Empty), Just(Prefix::WithVersion)];
    prop_oneof![
        1 => Just(Op::New),
        6 => (0..n_pieces).prop_map(Op::Update),
        2 => Just(Op::FinalizeAll),
        3 => (0u8..32).prop_map(Op::Finalize),
        1 => Just(Op::ProcessedLen),
        1 => Just(Op::CloneGen),
        3 => ((0..n_texts), pfx).prop_map(|(i, p)| Op::ParseStr(i, p)),
        3 => (0..n_bins).prop_map(Op::TryFromSlice),
        2 => prop_oneof![Just(n), 0..=n + 8].prop_map(Op::StoreBytes),
        2 => (p2, prop_oneof![Just(2 * n + 2), Just(2 * n), 0..=2 * n + 10]).prop_map(|(p, l)| Op::StoreStr(p, l)),
        3 => any::<bool>().prop_map(Op::Compare),
        1 => Just(Op::ClearChecksum),
        2 => Just(Op::Accessors),
        1 => Just(Op::MaxDistance),
    ]
}

/// Programs over the allocation-free set; inputs are generated BEFORE the measured region.
pub fn program_strategy(v: vmodel::Variant, strict: bool) -> impl Strategy<Value = Program> {
    let n = v.size();
    let pieces = vec(gens::data_strategy(v, 3000).prop_map(|d: DataSpec| d.render()), 1..5);
    let texts = vec(gens::text_strategy(v).prop_map(move |t: TextSpec| t.render(v)), 1..4);
    let bins = vec(prop_oneof![3 => vec(any::<u8>(), n), 1 => vec(any::<u8>(), 0..2 * n)], 1..4);
    (pieces, texts, bins, gens::hash_bytes_strategy(v), gens::hash_bytes_strategy(v)).prop_flat_map(move |(mut pieces, mut texts, mut bins, mut h1, mut h2)| {
        // slot 0 of texts / bins is always acceptable so that hashes A and B exist
        for h in [&mut h1, &mut h2] {
            if strict {
                h[0] %= 49;
                h[v.ck] %= 170;
            }
        }
        texts.insert(0, vmodel::text::encode(v, &h1, true));
        bins.insert(0, h2.clone());
        pieces.push(DataSpec { kind: gens::Kind::Mixed, len: 300, seed: h1[1] as u64, explicit: None }.render());
        let (np, nt, nb) = (pieces.len(), texts.len(), bins.len());
        vec(op_strategy(np, nt, nb, n), 1..(MAX_OPS - 6)).prop_map(move |mut ops| {
            let mut all = vec![Op::ParseStr(0, None), Op::TryFromSlice(0), Op::Compare(false)];
            all.append(&mut ops);
            // the positive control must be the last op and must see a hash
            all.push(Op::TryFromSlice(0));
            all.push(Op::ControlToString);
            Program { pieces: pieces.clone(), texts: texts.clone(), bins: bins.clone(), ops: all }
        })
    })
}

pub fn judge(v: vmodel::Variant, prog: &Program, rep: &Report) -> Result<(), String> {
    if rep.executed != prog.ops.len().min(MAX_OPS) {
        return Err(format!("{}: executed {} of {} ops", v.name, rep.executed, prog.ops.len()));
    }
    for (i, op) in prog.ops.iter().enumerate().take(rep.executed) {
        match op {
            Op::ControlToString => {
                if rep.allocs[i] == 0 {
                    return Err(format!("{}: positive control failed: to_string() was not seen by the counting allocator (dead counter)", v.name));
                }
            }
            _ => {
                if rep.allocs[i] != 0 {
                    let detail = match op {
                        Op::Update(k) => format!(" (piece of {} bytes)", prog.pieces[*k].len()),
                        Op::ParseStr(k, _) => format!(" (text {:?})", String::from_utf8_lossy(&prog.texts[*k])),
                        Op::TryFromSlice(k) => format!(" (bytes {})", hex(&prog.bins[*k])),
                        _ => String::new(),
                    };
                    return Err(format!("{}: operation #{} {:?}{} made {} heap allocation call(s); core operations must not allocate", v.name, i, op, detail, rep.allocs[i]));
                }
            }
        }
    }
    Ok(())
}

pub fn case_program(va: &dyn VariantApi, prog: &Program, st: &CaseStats) -> Result<(), String> {
    let v = va.v();
    let mut rep = Report::default();
    va.noalloc_exec(prog, &mut rep);
    st.evals(rep.executed as u64);
    judge(v, prog, &rep)?;
    if rep.finalize_ok > 0 && rep.parse_ok > 0 && rep.parse_err > 0 {
        let mut d = fnv(v.name.as_bytes());
        for p in &prog.pieces {
            d = fnv_mix(d, fnv(p));
        }
        d = fnv_mix(d, prog.ops.len() as u64);
        st.nontrivial(fnv_mix(d, rep.digest));
    }
    if rep.finalize_ok > 0 {
        st.class("program with a successful finalize");
    }
    if rep.parse_err > 0 {
        st.class("program with a rejected parse");
    }
    if rep.store_err > 0 {
        st.class("program with a too-small store buffer");
    }
    Ok(())
}

fn run_sequences(ctx: &Ctx) -> CheckResult {
    let strict = ctx.api.caps().strict;
    let cases = ctx.tier.pick(1500u32, 20_000);
    for va in ctx.api.variants() {
        let v = va.v();
        ctx.pt_run(
            "program",
            &format!("sequences/{}", v.name),
            cases,
            program_strategy(v, strict),
            |p: &Program| json!({"variant": v.name, "program": p}),
            |p: &Program, st: &CaseStats| {
                st.sample(|| json!({"check": "program", "variant": v.name, "ops": p.ops, "piece_lens": p.pieces.iter().map(|x| x.len()).collect::<Vec<_>>()}));
                case_program(va, p, st)
            },
        )?;
    }
    Ok(())
}

/// The deterministic program used by the first-call children.
pub fn firstcall_program(v: vmodel::Variant, seed: u64) -> Program {
    let mut r = gens::Xs::new(seed);
    let mut h1: Vec<u8> = (0..v.size()).map(|_| r.byte()).collect();
    let mut h2: Vec<u8> = (0..v.size()).map(|_| r.byte()).collect();
    for h in [&mut h1, &mut h2] {
        h[0] %= 49;
        h[v.ck] %= 170;
    }
    let data = DataSpec { kind: gens::Kind::Mixed, len: 700 + (seed % 300) as usize, seed, explicit: None }.render();
    let mut bad = vmodel::text::encode(v, &h1, true);
    bad[5] = b'G';
    let n = v.size();
    // order chosen by the seed: which library entry point is the very first call of the process
    let mut groups: Vec<Vec<Op>> = vec![
        vec![Op::TryFromSlice(0), Op::TryFromSlice(1), Op::Compare(false), Op::Compare(true)],
        vec![Op::New, Op::Update(0), Op::FinalizeAll, Op::ProcessedLen],
        vec![Op::ParseStr(0, None), Op::ParseStr(1, None), Op::StoreStr(Prefix::WithVersion, 2 * n + 2), Op::StoreStr(Prefix::Empty, 3)],
        vec![Op::TryFromSlice(0), Op::StoreBytes(n), Op::StoreBytes(1), Op::Accessors, Op::ClearChecksum, Op::MaxDistance],
    ];
    let k = (seed % 4) as usize;
    groups.rotate_left(k);
    let mut ops: Vec<Op> = groups.into_iter().flatten().collect();
    ops.push(Op::TryFromSlice(0));
    ops.push(Op::ControlToString);
    Program { pieces: vec![data], texts: vec![vmodel::text::encode(v, &h1, true), bad], bins: vec![h1, h2], ops }
}

/// Child: the first library call of the process happens inside the measured region.
pub fn firstcall_child(api: &dyn GlobalApi, vi: usize, seed: u64) -> i32 {
    let vs = api.variants();
    let va = vs[vi % vs.len()];
    let prog = firstcall_program(va.v(), seed);
    let mut rep = Report::default();
    va.noalloc_exec(&prog, &mut rep);
    match judge(va.v(), &prog, &rep) {
        Ok(()) => {
            println!("{}", json!({"ok": true, "executed": rep.executed, "finalize_ok": rep.finalize_ok, "parse_ok": rep.parse_ok, "parse_err": rep.parse_err}));
            0
        }
        Err(m) => {
            println!("{}", json!({"ok": false, "message": m}));
            1
        }
    }
}

fn run_firstcall(ctx: &Ctx) -> CheckResult {
    let exe = std::env::current_exe().expect("current_exe");
    let n = ctx.tier.pick(8u64, 64);
    for vi in 0..5usize {
        for k in 0..n {
            let seed = ctx.seed.wrapping_mul(31).wrapping_add(k * 5 + vi as u64);
            let out = std::process::Command::new(&exe).args(["c18-first", &vi.to_string(), &seed.to_string()]).output().expect("spawn child");
            ctx.ev.borrow_mut().evaluations += 1;
            let text = String::from_utf8_lossy(&out.stdout).to_string();
            let ok = out.status.code() == Some(0);
            if !ok {
                let msg = serde_json::from_str::<Value>(text.trim()).ok().and_then(|v| v.get("message").and_then(|m| m.as_str().map(|s| s.to_string()))).unwrap_or_else(|| format!("child exit {:?}: {}", out.status, text));
                return Err(ctx.violation("firstcall", format!("first library call of a fresh process: {}", msg), json!({"variant_index": vi, "seed": seed})));
            }
            ctx.ev.borrow_mut().nontrivial.insert(fnv_mix(vi as u64, seed));
        }
    }
    ctx.subcheck("firstcall", 5 * n);
    ctx.ev.borrow_mut().sample(json!({"check": "firstcall", "note": "fresh process per case; runtime CPU dispatch and hex-simd detection initialise inside the measured region", "ops": firstcall_program(vmodel::NORMAL, 1).ops}));
    Ok(())
}

/// The crate's own `Serialize` / `Deserialize` code (stack buffers; only the *format crate* may
/// allocate).  The mock format used here allocates a known amount itself: one `String`/`Vec`
/// copy of what it is sent, one `Box` for the resulting hash, one clone for the owned-data
/// visitor entries.  Everything beyond that was allocated by the library.
pub fn case_serde(api: &dyn GlobalApi, va: &dyn VariantApi, b: &[u8]) -> Result<u64, String> {
    use crate::api::SerRecord;
    use crate::mockserde::{DeEvent, DeScript};
    let v = va.v();
    let h = va.try_from_array(b).map_err(|e| format!("{}: TryFrom rejected {} with {:?}", v.name, hex(b), e))?;
    let text = String::from_utf8(vmodel::text::encode(v, b, true)).unwrap();
    let mut n = 0;
    for human in [true, false] {
        let before = api.alloc_count();
        let r = va.mock_ser(h.as_ref(), human);
        let used = api.alloc_count() - before;
        let Some(r) = r else { return Ok(0) };
        n += 1;
        match r {
            SerRecord::Str(_) | SerRecord::Bytes(_) => {
                if used != 1 {
                    return Err(format!("{}: serializing {} (human_readable = {}) made {} allocator calls; the mock format itself makes exactly 1", v.name, text, human, used));
                }
            }
            SerRecord::Other(o) => return Err(format!("{}: serialize sent {:?}", v.name, o)),
        }
    }
    let events: [(bool, DeEvent, u64); 6] = [
        (true, DeEvent::Str(text.clone()), 1),
        (true, DeEvent::BorrowedStr(text.clone()), 1),
        (true, DeEvent::String(text.clone()), 2),
        (false, DeEvent::Bytes(b.to_vec()), 1),
        (false, DeEvent::BorrowedBytes(b.to_vec()), 1),
        (false, DeEvent::ByteBuf(b.to_vec()), 2),
    ];
    for (human, event, own) in events {
        let script = DeScript { human, event };
        let before = api.alloc_count();
        let r = va.mock_de(&script);
        let used = api.alloc_count() - before;
        n += 1;
        match r {
            Some(Ok(_)) => {
                if used != own {
                    return Err(format!("{}: deserializing {:?} made {} allocator calls; the mock format and the harness make exactly {}", v.name, script, used, own));
                }
            }
            Some(Err(e)) => return Err(format!("{}: deserializing {:?} failed: {}", v.name, script, e)),
            None => return Ok(0),
        }
    }
    // error paths and every visitor entry, measured around `T::deserialize` alone with a mock
    // whose own errors do not allocate: the only allocation that is not the library's is the
    // clone the mock makes for the owned-data entries
    let mut bad_text = text.clone().into_bytes();
    let k = bad_text.len() - 3;
    bad_text[k] = b'G';
    let mut bad_utf8 = text.clone().into_bytes();
    bad_utf8[k] = 0xFF;
    bad_utf8[4] = 0xC3;
    let docs: Vec<(bool, DeEvent, u64)> = vec![
        (true, DeEvent::Str(String::from_utf8(bad_text.clone()).unwrap()), 0),
        (true, DeEvent::String(String::from_utf8(bad_text.clone()).unwrap()), 1),
        (true, DeEvent::Bytes(bad_text.clone()), 0),
        (true, DeEvent::Bytes(bad_utf8.clone()), 0),
        (true, DeEvent::BorrowedBytes(bad_utf8.clone()), 0),
        (true, DeEvent::ByteBuf(bad_utf8.clone()), 1),
        (true, DeEvent::Str(text[..text.len() - 1].to_string()), 0),
        (true, DeEvent::Str(format!("{}0", text)), 0),
        (true, DeEvent::Bytes(b.to_vec()), 0),
        (true, DeEvent::U64(7), 0),
        (true, DeEvent::Unit, 0),
        (false, DeEvent::Bytes(b[..b.len() - 1].to_vec()), 0),
        (false, DeEvent::Bytes([b, &[0u8][..]].concat()), 0),
        (false, DeEvent::Bytes(text.clone().into_bytes()), 0),
        (false, DeEvent::Str(text.clone()), 0),
        (false, DeEvent::U64(7), 0),
        (false, DeEvent::Bytes(b.to_vec()), 0),
        (false, DeEvent::ByteBuf(b.to_vec()), 1),
        (true, DeEvent::Str(text.clone()), 0),
        (true, DeEvent::Str(text.to_ascii_lowercase().replace("t1", "T1")), 0),
    ];
    for (human, event, own) in docs {
        let script = DeScript { human, event };
        let Some((accepted, used)) = va.mock_de_allocs(&script) else { return Ok(n) };
        n += 1;
        if used != own {
            return Err(format!(
                "{}: deserializing {:?} ({}) made {} allocator calls inside Deserialize::deserialize; the mock format makes exactly {} and renders no error message",
                v.name,
                script,
                if accepted { "accepted" } else { "rejected" },
                used,
                own
            ));
        }
    }
    Ok(n)
}

fn run_serde(ctx: &Ctx) -> CheckResult {
    if !ctx.api.caps().serde {
        ctx.skipped("serde: not compiled in this configuration");
        return Ok(());
    }
    let strict = ctx.api.caps().strict;
    for va in ctx.api.variants() {
        let v = va.v();
        let mut hashes = ctx.sample_values(&format!("serde/{}", v.name), ctx.tier.pick(200, 2000), &gens::hash_bytes_strategy(v));
        for b in hashes.iter_mut() {
            if strict {
                b[0] %= 49;
                b[v.ck] %= 170;
            }
        }
        // warm-up outside the measured region (lazily initialised statics, if any, are C18/firstcall's subject)
        let _ = case_serde(ctx.api, va, &hashes[0]);
        for b in &hashes {
            match case_serde(ctx.api, va, b) {
                Ok(n) => {
                    ctx.ev.borrow_mut().evaluations += n;
                    ctx.ev.borrow_mut().nontrivial_enumerated += n;
                }
                Err(m) => return Err(ctx.violation("serde", m, json!({"variant": v.name, "bytes": hex(b)}))),
            }
        }
    }
    ctx.subcheck("serde", 1);
    ctx.ev.borrow_mut().sample(json!({"check": "serde", "measured": "Serialize (human-readable and compact), Deserialize through visit_str / visit_borrowed_str / visit_string / visit_bytes / visit_borrowed_bytes / visit_byte_buf"}));
    Ok(())
}

pub fn replay(ctx: &Ctx, check: &str, case: &Value) -> Result<(), String> {
    if check == "serde" {
        let va = super::codec::variant_of(ctx.api, case)?;
        return case_serde(ctx.api, va, &super::codec::bytes_of(case, "bytes")?).map(|_| ());
    }
    let live = Cell::new(true);
    let st = ctx.stats("replay", &live);
    match check {
        "program" => {
            let va = super::codec::variant_of(ctx.api, case)?;
            let p: Program = serde_json::from_value(case.get("program").cloned().ok_or("no program")?).map_err(|e| e.to_string())?;
            case_program(va, &p, &st)
        }
        "firstcall" => {
            let g = |k: &str| case.get(k).and_then(|x| x.as_u64()).ok_or_else(|| k.to_string());
            let exe = std::env::current_exe().map_err(|e| e.to_string())?;
            let out = std::process::Command::new(&exe).args(["c18-first", &g("variant_index")?.to_string(), &g("seed")?.to_string()]).output().map_err(|e| e.to_string())?;
            if out.status.code() == Some(0) {
                Ok(())
            } else {
                Err(String::from_utf8_lossy(&out.stdout).to_string())
            }
        }
        _ => Err(format!("unknown check {}", check)),
    }
}
