//! C01 — generated hashes equal the TLSH reference algorithm for every input.

use super::common::*;
use super::{CheckResult, Sub};
use crate::api::*;
use crate::ctx::{fnv, fnv_mix, CaseStats, Ctx};
use crate::gens::{self, DataSpec, StateSpec};
use serde_json::{json, Value};
use std::cell::Cell;

pub fn subs() -> Vec<Sub> {
    vec![
        Sub { name: "data", run: run_data },
        Sub { name: "state", run: run_state },
        Sub { name: "thresholds", run: run_thresholds },
        Sub { name: "bmap", run: run_bmap },
        Sub { name: "lencode", run: run_lencode },
        Sub { name: "bigdata", run: run_bigdata },
    ]
}

/// Six of the enumerated setter-call sequences (chosen by the case digest, so that all ~600 are
/// spread over the cases and a replay picks the same ones): an options object built by calling
/// setters in any order, repeatedly, on and off again, denotes the setting "last write per
/// field" and must finalize to the reference result for that setting.
fn setters_vs_model(_va: &dyn VariantApi, g: &dyn GenObj, mg: &vmodel::Gen, digest: u64, what: &str, st: &CaseStats) -> Result<(), String> {
    thread_local! {
        static SEQS: Vec<Vec<(u8, bool)>> = setter_sequences();
    }
    SEQS.with(|seqs| {
        for j in 0..6u64 {
            let seq = &seqs[(digest.wrapping_add(j.wrapping_mul(0x9E37_79B9_7F4A_7C15)) % seqs.len() as u64) as usize];
            let eff = setters_effective(seq);
            let r = crate::ctx::catch(|| g.finalize_setters(seq)).map_err(|p| format!("{}: finalize after {} panicked: {}", what, setters_name(seq), p))?;
            st.eval();
            compare_result(&format!("{}: GeneratorOptions::new().{} (denotes {})", what, setters_name(seq), opt_name(eff.index())), &r, &mg.finalize(eff))?;
        }
        Ok(())
    })
}

/// One data case: implementation vs model under all 32 option settings.
pub fn case_data(va: &dyn VariantApi, data: &[u8], st: &CaseStats) -> Result<(), String> {
    let v = va.v();
    let mut mg = vmodel::Gen::new(v);
    mg.update(data);
    let mut g = va.generator();
    g.update(data);
    let mut any_ok = false;
    let mut differ = false;
    for oi in 0..32 {
        let o = Opts::from_index(oi);
        let m = mg.finalize(o);
        let r = g.finalize(o);
        st.eval();
        compare_result(&format!("{} finalize_with_options({}) on {} bytes", v.name, opt_name(oi), data.len()), &r, &m)?;
        if let Ok(h) = &m {
            any_ok = true;
            if oi & 2 == 0 {
                // compare with the integer twin
                if let Ok(h2) = mg.finalize(Opts::from_index(oi | 2)) {
                    if (h.q1, h.q2) != (h2.q1, h2.q2) {
                        differ = true;
                    }
                }
            }
        }
    }
    // finalize() == default options; hash_buf_for == the same
    let m0 = mg.finalize(Opts::from_index(Opts::DEFAULT_INDEX));
    compare_result(&format!("{} finalize()", v.name), &g.finalize_default(), &m0)?;
    st.eval();
    if let Some(r) = va.hash_buf(data) {
        compare_result(&format!("{} hash_buf_for", v.name), &r, &m0)?;
        st.eval();
    }
    // option objects built by other setter sequences denote the same 32 settings
    setters_vs_model(va, g.as_ref(), &mg, fnv(data), &format!("{} on {} bytes", v.name, data.len()), st)?;
    // a generator obtained through Default behaves as one obtained through new()
    let mut gd = va.generator_default();
    gd.update(data);
    compare_result(&format!("{} Generator::default() + finalize()", v.name), &gd.finalize_default(), &m0)?;
    st.eval();
    st.class(match &m0 {
        Ok(_) => "default:ok",
        Err(vmodel::GenError::TooSmall) => "default:too_small",
        Err(vmodel::GenError::TooLarge) => "default:too_large",
        Err(vmodel::GenError::HalfEmpty) => "default:half_empty",
        Err(vmodel::GenError::ThreeQuarterEmpty) => "default:three_quarter_empty",
    });
    if differ {
        st.class("f32_ratio != int_ratio");
    }
    let nz = mg.nonzero();
    let mn = v.min_nonzero();
    if nz + 1 >= mn && nz <= mn {
        st.class("nonzero within 1 of threshold");
    }
    if data.len() >= 5 && any_ok {
        st.nontrivial(fnv_mix(fnv(v.name.as_bytes()), fnv(data)));
    }
    Ok(())
}

/// `tlsh::hash_buf` (the default type) on the same data.
fn case_hash_buf_normal(api: &dyn GlobalApi, data: &[u8], st: &CaseStats) -> Result<(), String> {
    if let Some(r) = api.hash_buf_normal(data) {
        let m = vmodel::hash(vmodel::NORMAL, data, Opts::from_index(Opts::DEFAULT_INDEX));
        st.eval();
        compare_result("tlsh::hash_buf", &r, &m)?;
    }
    Ok(())
}

fn run_data(ctx: &Ctx) -> CheckResult {
    let cases = ctx.tier.pick(4000u32, 40000);
    let max = ctx.tier.pick(20_000usize, 70_000);
    for va in ctx.api.variants() {
        let v = va.v();
        let stream = format!("data/{}", v.name);
        ctx.pt_run(
            "data",
            &stream,
            cases,
            gens::data_strategy(v, max),
            |d: &DataSpec| json!({"variant": v.name, "data": d.to_json()}),
            |d: &DataSpec, st: &CaseStats| {
                let data = d.render();
                st.sample(|| json!({"check": "data", "variant": v.name, "len": data.len(), "data": d.to_json()}));
                if v.name == "Normal" {
                    case_hash_buf_normal(ctx.api, &data, st)?;
                }
                case_data(va, &data, st)
            },
        )?;
    }
    Ok(())
}

/// One injected-state case.
pub fn case_state(va: &dyn VariantApi, gs: &GenState, st: &CaseStats) -> Result<(), String> {
    let v = va.v();
    let Some(g) = va.gen_from_state(gs) else { return Err("hook gen_from_state not available".into()) };
    let mg = model_from_state(v, gs);
    let total = gs.len as u64 + 4;
    if g.processed_len() != u32::try_from(total).ok() {
        return Err(format!("{}: processed_len() {:?} != injected {}", v.name, g.processed_len(), total));
    }
    let mut any_ok = false;
    let mut differ = false;
    for oi in 0..32 {
        let o = Opts::from_index(oi);
        let m = mg.finalize(o);
        let r = g.finalize(o);
        st.eval();
        compare_result(&format!("{} finalize_with_options({}) on injected state (n={})", v.name, opt_name(oi), total), &r, &m)?;
        if let Ok(h) = &m {
            any_ok = true;
            if oi & 2 == 0 {
                if let Ok(h2) = mg.finalize(Opts::from_index(oi | 2)) {
                    if (h.q1, h.q2) != (h2.q1, h2.q2) {
                        differ = true;
                    }
                }
            }
        }
    }
    setters_vs_model(va, g.as_ref(), &mg, fnv_mix(gs.len as u64, gs.buckets.iter().fold(7u64, |h, &b| fnv_mix(h, b as u64))), &format!("{} on injected state (n={})", v.name, total), st)?;
    // the injected state is a state like any other: feeding more data from it follows the
    // reference too (32-bit bucket counters wrap, as the reference's `unsigned int` ones do)
    {
        let digest = fnv_mix(gs.len as u64, gs.buckets.iter().fold(7u64, |h, &b| fnv_mix(h, b as u64)));
        let mut rng = gens::Xs::new(digest);
        let more: Vec<u8> = (0..64 + (digest % 700) as usize).map(|_| if digest & 1 == 0 { rng.byte() } else { rng.byte() & 3 }).collect();
        let mut g2 = va.gen_from_state(gs).ok_or("hook gen_from_state not available")?;
        let mut m2 = model_from_state(v, gs);
        g2.update(&more);
        m2.update(&more);
        for oi in [Opts::DEFAULT_INDEX, Opts::PERMISSIVE_INDEX, 1, 3] {
            st.eval();
            compare_result(
                &format!("{} finalize_with_options({}) on injected state (n={}) followed by {} more bytes", v.name, opt_name(oi), total, more.len()),
                &g2.finalize(Opts::from_index(oi)),
                &m2.finalize(Opts::from_index(oi)),
            )?;
        }
        if gs.buckets[..v.buckets].iter().any(|&b| b > u32::MAX - 4096) {
            st.class("update from a state with a bucket counter within 4096 of u32::MAX");
        }
    }
    // finalize() is finalize_with_options(default) on every state, not only on small inputs
    let m0 = mg.finalize(Opts::from_index(Opts::DEFAULT_INDEX));
    compare_result(&format!("{} finalize() on injected state (n={})", v.name, total), &g.finalize_default(), &m0)?;
    st.eval();
    let mx = gs.buckets[..v.buckets].iter().copied().max().unwrap_or(0);
    if mx >= 1 << 31 {
        st.class("max count >= 2^31");
    } else if mx >= 42_949_673 {
        st.class("max count >= 42949673 (x100 wraps)");
    } else if mx >= 1 << 24 {
        st.class("max count >= 2^24");
    } else {
        st.class("max count < 2^24");
    }
    if differ {
        st.class("f32_ratio != int_ratio");
    }
    if total > vmodel::MAX_LEN {
        st.class("n > MAX");
    } else if total >= 1 << 31 {
        st.class("n >= 2^31");
    }
    if any_ok {
        let mut d = fnv(v.name.as_bytes());
        for b in &gs.buckets {
            d = fnv_mix(d, *b as u64);
        }
        d = fnv_mix(d, gs.len as u64);
        st.nontrivial(d);
    }
    Ok(())
}

fn run_state(ctx: &Ctx) -> CheckResult {
    if !ctx.api.caps().hooks {
        ctx.skipped("state: built without hooks");
        return Ok(());
    }
    let cases = ctx.tier.pick(5000u32, 50000);
    for va in ctx.api.variants() {
        let v = va.v();
        let stream = format!("state/{}", v.name);
        ctx.pt_run(
            "state",
            &stream,
            cases,
            gens::state_strategy(v),
            |s: &StateSpec| json!({"variant": v.name, "state": s.render(v)}),
            |s: &StateSpec, st: &CaseStats| {
                let gs = s.render(v);
                st.sample(|| json!({"check": "state", "variant": v.name, "spec": s, "len": gs.len, "buckets_head": &gs.buckets[..8]}));
                case_state(va, &gs, st)
            },
        )?;
    }
    Ok(())
}

/// Every number k of non-zero effective buckets, 0..=buckets, in a few value shapes: the
/// three-quarter-empty / half-empty thresholds are pinned for every k, not sampled.
fn run_thresholds(ctx: &Ctx) -> CheckResult {
    if !ctx.api.caps().hooks {
        ctx.skipped("thresholds: built without hooks");
        return Ok(());
    }
    let live = Cell::new(true);
    let st = ctx.stats("thresholds", &live);
    for va in ctx.api.variants() {
        let v = va.v();
        for k in 0..=v.buckets {
            for shape in 0..4u32 {
                let mut b = vec![0u32; 256];
                // which buckets are non-zero: a prefix, a suffix, every other one, or spread by a stride
                for i in 0..k {
                    let pos = match shape {
                        0 => i,
                        1 => v.buckets - 1 - i,
                        2 => (i * 2) % v.buckets + (i * 2) / v.buckets,
                        _ => (i * 37) % v.buckets,
                    };
                    b[pos % v.buckets] = 1 + (i as u32 % 3) * shape;
                }
                // shapes 2 and 3 may collide; recount so that the case is still labelled correctly
                let gs = GenState { buckets: b, len: 200 + k as u32, tail: [1, 2, 3, 4], tail_len: 4, checksum: vec![7; v.ck] };
                if let Err(m) = case_state(va, &gs, &st) {
                    return Err(ctx.violation("state", m, json!({"variant": v.name, "state": gs})));
                }
            }
        }
        st.sample(|| json!({"check": "thresholds", "variant": v.name, "k": format!("0..={}", v.buckets), "shapes": 4}));
    }
    ctx.exhaustive("every count k = 0..=buckets of non-zero effective buckets (4 placements) under all 32 options");
    Ok(())
}

/// All 2^32 argument tuples of both bucket mappings against the model.
fn run_bmap(ctx: &Ctx) -> CheckResult {
    if !ctx.api.caps().hooks {
        ctx.skipped("bmap: built without hooks");
        return Ok(());
    }
    // one representative per mapping: Short -> 48-bucket mapping, Normal -> 256-bucket mapping
    for (name, is48) in [("Short", true), ("Normal", false)] {
        let va = variant_by_name(ctx.api, name).unwrap();
        let b0s: Vec<u8> = (0..=255u8).collect();
        let results = par_map(ctx.threads, &b0s, |&b0| -> Option<(u8, u8, u8, u8, u8, u8)> {
            let mut out = vec![0u8; 1 << 24];
            assert!(va.b_mapping_sweep(b0, &mut out));
            for b1 in 0..=255u8 {
                for b2 in 0..=255u8 {
                    for b3 in 0..=255u8 {
                        let m = if is48 { vmodel::b_mapping_48(b0, b1, b2, b3) } else { vmodel::b_mapping_256(b0, b1, b2, b3) };
                        let got = out[((b1 as usize) << 16) | ((b2 as usize) << 8) | b3 as usize];
                        if got != m {
                            return Some((b0, b1, b2, b3, got, m));
                        }
                    }
                }
            }
            None
        });
        {
            let mut ev = ctx.ev.borrow_mut();
            ev.evaluations += 1u64 << 32;
            ev.nontrivial_enumerated += 1u64 << 32;
        }
        ctx.subcheck("bmap", 1u64 << 32);
        ctx.exhaustive(format!("all 2^32 arguments of the {} bucket mapping", if is48 { "48-bucket" } else { "256-bucket" }));
        if let Some((b0, b1, b2, b3, got, m)) = results.into_iter().flatten().next() {
            return Err(ctx.violation(
                "bmap",
                format!("{} mapping({},{},{},{}) = {} but reference = {}", if is48 { "48-bucket" } else { "256-bucket" }, b0, b1, b2, b3, got, m),
                json!({"variant": name, "args": [b0, b1, b2, b3]}),
            ));
        }
    }
    ctx.ev.borrow_mut().sample(json!({"check": "bmap", "note": "every (b0,b1,b2,b3) in 0..256^4 for both mappings"}));
    Ok(())
}

pub fn case_bmap(va: &dyn VariantApi, a: [u8; 4]) -> Result<(), String> {
    let is48 = va.v().buckets == 48;
    let m = if is48 { vmodel::b_mapping_48(a[0], a[1], a[2], a[3]) } else { vmodel::b_mapping_256(a[0], a[1], a[2], a[3]) };
    match va.b_mapping(a[0], a[1], a[2], a[3]) {
        None => Err("hook not available".into()),
        Some(g) if g != m => Err(format!("mapping{:?} = {} but reference = {}", a, g, m)),
        _ => Ok(()),
    }
}

/// One length: `new(n)` and an injected-state finalize carry the reference code.
pub fn case_lencode(ctx: &Ctx, n: u32, live: &Cell<bool>) -> Result<(), String> {
    let st = ctx.stats("lencode", live);
    let m = vmodel::length_code(n as u64);
    let got = ctx.api.len_new(n);
    st.eval();
    if got != m {
        return Err(format!("FuzzyHashLengthEncoding::new({}) = {:?} but reference l_capturing = {:?}", n, got, m));
    }
    if ctx.api.caps().hooks && n >= 4 {
        for va in ctx.api.variants() {
            let v = va.v();
            let spec = StateSpec { buckets: gens::BucketClass::Plausible, len: gens::LenClass::Exact(n), seed: n as u64 };
            let gs = spec.render(v);
            let g = va.gen_from_state(&gs).unwrap();
            let r = g.finalize(Opts::from_index(Opts::PERMISSIVE_INDEX));
            let mm = model_from_state(v, &gs).finalize(Opts::from_index(Opts::PERMISSIVE_INDEX));
            st.eval();
            compare_result(&format!("{} finalize at n={}", v.name, n), &r, &mm)?;
            if let (Ok(h), Some(c)) = (&r, m) {
                if h.lvalue() != c {
                    return Err(format!("{}: hash of {} bytes carries length code {} but reference = {}", v.name, n, h.lvalue(), c));
                }
            }
        }
    }
    if n > 0 && m.is_some() {
        st.nontrivial(n as u64);
    }
    Ok(())
}

fn run_lencode(ctx: &Ctx) -> CheckResult {
    let live = Cell::new(true);
    let mut ns: Vec<u32> = vec![0, 1, 2, u32::MAX, u32::MAX - 1];
    for &t in vmodel::TOPVAL.iter() {
        ns.push(t);
        ns.push(t.saturating_add(1));
        ns.push(t - 1);
    }
    let extra = ctx.tier.pick(2_000usize, 50_000);
    let rnd = ctx.sample_values("lencode", extra, &proptest::prelude::any::<u32>());
    for (i, r) in rnd.into_iter().enumerate() {
        // spread over magnitudes
        ns.push(r >> (i % 32));
    }
    for &n in &ns {
        if let Err(m) = case_lencode(ctx, n, &live) {
            return Err(ctx.violation("lencode", m, json!({ "n": n })));
        }
    }
    ctx.subcheck("lencode", ns.len() as u64);
    ctx.exhaustive("all 170 length-table boundaries t-1, t, t+1");
    ctx.ev.borrow_mut().sample(json!({"check": "lencode", "n": ns[7], "reference_code": vmodel::length_code(ns[7] as u64)}));
    Ok(())
}

/// Thorough: REAL inputs of 17..90 MB with period <= 4, so that real bucket counts exceed
/// 2^24 (f32 and integer Q ratios diverge) and 42,949,673 (q*100 wraps in 32 bits). This is
/// the same comparison as `data`, on the count classes that otherwise rest on state injection.
fn run_bigdata(ctx: &Ctx) -> CheckResult {
    if ctx.tier == crate::ctx::Tier::Quick {
        ctx.skipped("bigdata: thorough tier only (real inputs of 17..90 MB)");
        return Ok(());
    }
    let vs = ctx.api.variants();
    let mut jobs = Vec::new();
    let rnd = ctx.sample_values("bigdata", 15, &(17usize << 20..90usize << 20, 1u8..=4, proptest::prelude::any::<u64>()));
    for (i, (len, period, seed)) in rnd.into_iter().enumerate() {
        jobs.push((i % 5, DataSpec { kind: gens::Kind::Periodic(period, (i % 3) as u8), len, seed, explicit: None }));
    }
    let results = par_map(ctx.threads.min(8), &jobs, |(vi, d)| -> Result<(), String> {
        let st = CaseStats::null();
        case_data(vs[*vi], &d.render(), &st)
    });
    for ((vi, d), r) in jobs.iter().zip(results) {
        let mut ev = ctx.ev.borrow_mut();
        ev.evaluations += 34;
        ev.nontrivial_enumerated += 1;
        ev.class("real input with bucket counts >= 2^24");
        ev.sample(json!({"check": "bigdata", "variant": vs[*vi].v().name, "len": d.len, "data": d.to_json()}));
        drop(ev);
        if let Err(m) = r {
            return Err(ctx.violation("data", m, json!({"variant": vs[*vi].v().name, "data": d.to_json()})));
        }
    }
    ctx.subcheck("bigdata", jobs.len() as u64);
    Ok(())
}

pub fn replay(ctx: &Ctx, check: &str, case: &Value) -> Result<(), String> {
    let live = Cell::new(true);
    let st = ctx.stats("replay", &live);
    let va = || -> Result<&dyn VariantApi, String> {
        let name = case.get("variant").and_then(|x| x.as_str()).ok_or("no variant")?;
        variant_by_name(ctx.api, name).ok_or_else(|| "unknown variant".to_string())
    };
    match check {
        "data" => {
            let d = DataSpec::from_json(case.get("data").ok_or("no data")?).ok_or("bad data")?;
            let va = va()?;
            if va.v().name == "Normal" {
                case_hash_buf_normal(ctx.api, &d.render(), &st)?;
            }
            case_data(va, &d.render(), &st)
        }
        "state" => {
            let gs: GenState = serde_json::from_value(case.get("state").cloned().ok_or("no state")?).map_err(|e| e.to_string())?;
            case_state(va()?, &gs, &st)
        }
        "bmap" => {
            let a: Vec<u8> = serde_json::from_value(case.get("args").cloned().ok_or("no args")?).map_err(|e| e.to_string())?;
            case_bmap(va()?, [a[0], a[1], a[2], a[3]])
        }
        "lencode" => {
            let n = case.get("n").and_then(|x| x.as_u64()).ok_or("no n")? as u32;
            case_lencode(ctx, n, &live)
        }
        _ => Err(format!("unknown check {}", check)),
    }
}
