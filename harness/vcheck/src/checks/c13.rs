//! C13 — string comparison helpers equal parse-then-compare and blame the right side.

use super::{CheckResult, Sub};
use crate::api::*;
use crate::ctx::{fnv, fnv_mix, CaseStats, Ctx};
use crate::gens;
use proptest::prelude::*;
use serde_json::{json, Value};
use std::cell::Cell;
use vmodel::text::PrefixMode;

pub fn subs() -> Vec<Sub> {
    vec![Sub { name: "pairs", run: run_pairs }]
}

fn transform(s: &str, k: u8) -> String {
    // case / prefix changes that must not matter for a valid operand
    let mut t = s.to_string();
    if k & 1 != 0 {
        t = t.to_ascii_lowercase().replace("t1", "T1");
        if s.starts_with("T1") && !t.starts_with("T1") {
            t.replace_range(0..2, "T1");
        }
    }
    if k & 2 != 0 {
        if let Some(rest) = t.strip_prefix("T1") {
            t = rest.to_string();
        } else {
            t = format!("T1{}", t);
        }
    }
    t
}

pub fn case_pair(api: &dyn GlobalApi, va: &dyn VariantApi, l: &str, r: &str, st: &CaseStats) -> Result<(), String> {
    let v = va.v();
    let expect = |l: &str, r: &str| -> Result<u32, (Side, PErr)> {
        match (va.from_str(l), va.from_str(r)) {
            (Ok(a), Ok(b)) => Ok(a.compare_default(b.as_ref())),
            (Err(e), _) => Err((Side::Left, e)),
            (Ok(_), Err(e)) => Err((Side::Right, e)),
        }
    };
    let want = expect(l, r);
    let Some(got) = va.compare_with(l, r) else { return Err("easy functions not compiled".into()) };
    st.eval();
    if got != want {
        return Err(format!("{}: compare_with({:?}, {:?}) = {:?} but parse-then-compare gives {:?}", v.name, l, r, got, want));
    }
    if v.name == "Normal" {
        let got = api.compare_normal(l, r).unwrap();
        st.eval();
        if got != want {
            return Err(format!("tlsh::compare({:?}, {:?}) = {:?} but parse-then-compare gives {:?}", l, r, got, want));
        }
    }
    // aliasing: both operands are slices of ONE buffer that start at the same address (a line and
    // its trimmed form, a string and a prefix of it).  What the operands denote is decided by
    // their contents, not by where they live.
    for s in [l, r] {
        let buf = format!("{}0F", s);
        let n = s.len();
        for k in [n, n.saturating_sub(1), n.saturating_sub(2), 2usize.min(n), 0, n + 1, n + 2] {
            if !buf.is_char_boundary(k) {
                continue;
            }
            for (a, b) in [(&buf[..n], &buf[..k]), (&buf[..k], &buf[..n])] {
                let want = expect(&a.to_string(), &b.to_string());
                let got = va.compare_with(a, b).unwrap();
                st.eval();
                if got != want {
                    return Err(format!("{}: compare_with({:?}, {:?}) with both operands slices of one buffer (same start address) = {:?} but parse-then-compare gives {:?}", v.name, a, b, got, want));
                }
                if v.name == "Normal" {
                    let got = api.compare_normal(a, b).unwrap();
                    if got != want {
                        return Err(format!("tlsh::compare({:?}, {:?}) with both operands slices of one buffer = {:?} but parse-then-compare gives {:?}", a, b, got, want));
                    }
                }
            }
        }
    }
    match &want {
        Ok(d) => {
            st.class("both parse");
            // the distance is the reference distance of the denoted hashes
            if let (Some(a), Some(b)) = (vmodel::text::decode(v, l.as_bytes(), PrefixMode::Auto), vmodel::text::decode(v, r.as_bytes(), PrefixMode::Auto)) {
                let m = vmodel::distance(&vmodel::Hash::from_bytes(v, &a), &vmodel::Hash::from_bytes(v, &b), false);
                st.eval();
                if *d != m {
                    return Err(format!("{}: compare_with({:?}, {:?}) = {} but the reference distance is {}", v.name, l, r, d, m));
                }
            }
            // insensitive to hex letter case and to the prefix, on either side
            for k in 1..16u8 {
                let (l2, r2) = (transform(l, k & 3), transform(r, k >> 2));
                st.eval();
                let g = va.compare_with(&l2, &r2).unwrap();
                if g != Ok(*d) {
                    return Err(format!("{}: compare_with({:?}, {:?}) = {:?} differs from {} for the same hashes written as ({:?}, {:?})", v.name, l2, r2, g, d, l, r));
                }
            }
        }
        Err((Side::Left, _)) => {
            if va.from_str(r).is_err() {
                st.class("both fail (left blamed)");
            } else {
                st.class("only left fails");
            }
        }
        Err((Side::Right, _)) => st.class("only right fails"),
    }
    st.nontrivial(fnv_mix(fnv_mix(fnv(v.name.as_bytes()), fnv(l.as_bytes())), fnv(r.as_bytes())));
    Ok(())
}

fn side_strategy(v: vmodel::Variant) -> BoxedStrategy<String> {
    let valid = (gens::hash_bytes_strategy(v), any::<bool>(), any::<u8>()).prop_map(move |(b, with, k)| {
        let s = String::from_utf8(vmodel::text::encode(v, &b, with)).unwrap();
        match k % 3 {
            0 => s,
            1 => transform(&s, 1),
            _ => s.chars().enumerate().map(|(i, c)| if i >= 2 && (i as u8 ^ k) & 1 == 1 { c.to_ascii_lowercase() } else { c }).collect(),
        }
    });
    // header values at the two strict-parser gates, optionally with a non-hex character further
    // on: in a strict build an operand with TWO faults (whose precedence a fast path may change)
    let gated = (gens::hash_bytes_strategy(v), any::<bool>(), proptest::sample::select(vec![0x30u8, 0x31, 0xFF, 0x00]), proptest::sample::select(vec![0xA9u8, 0xAA, 0xFF, 0x00]), proptest::collection::vec((any::<u16>(), proptest::sample::select(vec![b'G', b'@', b' ', b'g', 0x7f])), 0..3))
        .prop_map(move |(mut b, with, c, l, bad)| {
            b[0] = c;
            b[v.ck] = l;
            let mut t = vmodel::text::encode(v, &b, with);
            let first_body = t.len() - 2 * v.body();
            for (pos, ch) in bad {
                let i = first_body + gens::idx(pos, 2 * v.body());
                t[i] = ch;
            }
            String::from_utf8(t).unwrap()
        });
    prop_oneof![5 => valid, 3 => gens::utf8_text_strategy(v), 2 => gated].boxed()
}

/// Independent operands, and RELATED operands (the same string on both sides, or a
/// case / one-character variant of it): shortcuts keyed on operand equality live there.
fn pair_strategy(v: vmodel::Variant) -> BoxedStrategy<(String, String)> {
    let independent = (side_strategy(v), side_strategy(v));
    let related = (side_strategy(v), 0u8..6, any::<u16>(), any::<bool>()).prop_map(|(l, k, pos, swap)| {
        let r = match k {
            0 => l.clone(),
            1 => l.to_ascii_lowercase(),
            2 => l.to_ascii_uppercase(),
            3 => transform(&l, 1),
            4 => transform(&l, 2),
            _ => {
                // one character changed (keeps the length for ASCII strings)
                let mut c: Vec<char> = l.chars().collect();
                if !c.is_empty() {
                    let i = pos as usize % c.len();
                    c[i] = if c[i] == '0' { '1' } else { '0' };
                }
                c.into_iter().collect()
            }
        };
        if swap {
            (r, l)
        } else {
            (l, r)
        }
    });
    // extremal pairs: the distance is exactly the variant's maximum (an off-by-one bound, a clamp
    // or an assertion `< max` shows only there), and near-extremal ones
    let extremal = (any::<u8>(), any::<bool>(), any::<bool>(), proptest::option::of((any::<u16>(), any::<u8>()))).prop_map(move |(fill, with_a, with_b, dent)| {
        let (a, mut b) = super::c08::witness_pair(v, fill);
        if let Some((pos, x)) = dent {
            let i = gens::idx(pos, b.len());
            b[i] ^= x;
        }
        (String::from_utf8(vmodel::text::encode(v, &a, with_a)).unwrap(), String::from_utf8(vmodel::text::encode(v, &b, with_b)).unwrap())
    });
    prop_oneof![6 => independent, 4 => related, 1 => extremal].boxed()
}

fn run_pairs(ctx: &Ctx) -> CheckResult {
    if !ctx.api.caps().easy {
        ctx.skipped("pairs: easy functions not compiled");
        return Ok(());
    }
    let cases = ctx.tier.pick(6000u32, 100_000);
    for va in ctx.api.variants() {
        let v = va.v();
        ctx.pt_run(
            "pairs",
            &format!("pairs/{}", v.name),
            cases,
            pair_strategy(v),
            |(l, r): &(String, String)| json!({"variant": v.name, "l": l, "r": r}),
            |(l, r): &(String, String), st: &CaseStats| {
                st.sample(|| json!({"check": "pairs", "variant": v.name, "l": l, "r": r}));
                case_pair(ctx.api, va, l, r, st)
            },
        )?;
    }
    Ok(())
}

pub fn replay(ctx: &Ctx, _check: &str, case: &Value) -> Result<(), String> {
    let live = Cell::new(true);
    let st = ctx.stats("replay", &live);
    let va = super::codec::variant_of(ctx.api, case)?;
    let g = |k: &str| case.get(k).and_then(|x| x.as_str()).map(|s| s.to_string()).ok_or_else(|| k.to_string());
    case_pair(ctx.api, va, &g("l")?, &g("r")?, &st)
}
