//! C02 — distance between two hashes equals the TLSH reference distance.

use super::common::*;
use super::{CheckResult, Sub};
use crate::api::*;
use crate::ctx::{fnv, fnv_mix, hex, unhex, CaseStats, Ctx};
use crate::gens;
use proptest::prelude::*;
use serde_json::{json, Value};
use std::cell::Cell;
use vmodel::Variant;

pub fn subs() -> Vec<Sub> {
    vec![
        Sub { name: "random", run: run_random },
        Sub { name: "blocks", run: run_blocks },
        Sub { name: "header", run: run_header },
        Sub { name: "body", run: run_body },
        Sub { name: "backends", run: run_backends },
        Sub { name: "adjacent", run: run_adjacent },
    ]
}

fn mk(va: &dyn VariantApi, b: &[u8]) -> Result<H, String> {
    va.try_from_array(b).map_err(|e| format!("{}: TryFrom<&[u8; N]> rejected {} with {:?} (lenient parser expected)", va.v().name, hex(b), e))
}

/// Everything the property says about one pair.
pub fn case_pair(va: &dyn VariantApi, a: &[u8], b: &[u8], hooks: bool, st: &CaseStats) -> Result<(), String> {
    let v = va.v();
    let (ha, hb) = (mk(va, a)?, mk(va, b)?);
    let (ma, mb) = (vmodel::Hash::from_bytes(v, a), vmodel::Hash::from_bytes(v, b));
    for no_length in [false, true] {
        let d = ha.compare(hb.as_ref(), no_length);
        let m = vmodel::distance(&ma, &mb, no_length);
        st.eval();
        if d != m {
            return Err(format!(
                "{} compare_with_config({}) = {} but reference distance = {} (a={}, b={})",
                v.name,
                if no_length { "NoLength" } else { "Default" },
                d,
                m,
                hex(a),
                hex(b)
            ));
        }
    }
    let d = ha.compare_default(hb.as_ref());
    if d != vmodel::distance(&ma, &mb, false) {
        return Err(format!("{} compare() = {} but reference = {}", v.name, d, vmodel::distance(&ma, &mb, false)));
    }
    let p = ha.compare_parts(hb.as_ref());
    let mp = [
        vmodel::distance_body(&ma.body, &mb.body),
        vmodel::distance_checksum(&ma.checksum, &mb.checksum),
        vmodel::distance_q(ma.q1, mb.q1) + vmodel::distance_q(ma.q2, mb.q2),
        vmodel::distance_length(ma.lvalue, mb.lvalue),
    ];
    st.eval();
    if p != mp {
        return Err(format!("{} part distances [body,checksum,qratios,length] = {:?} but reference = {:?} (a={}, b={})", v.name, p, mp, hex(a), hex(b)));
    }
    if hooks {
        backends_pair(va, &ma.body, &mb.body, st)?;
    }
    if a != b && mp[0] > 0 {
        st.nontrivial(fnv_mix(fnv_mix(fnv(v.name.as_bytes()), fnv(a)), fnv(b)));
    }
    Ok(())
}

/// Every compiled body-distance backend against the model.
pub fn backends_pair(va: &dyn VariantApi, a: &[u8], b: &[u8], st: &CaseStats) -> Result<(), String> {
    let m = vmodel::distance_body(a, b);
    for be in DIST_BACKENDS {
        if let Some(d) = va.body_distance_by(be, a, b) {
            st.eval();
            if d != m {
                return Err(format!("{}-byte body distance by backend {:?} = {} but reference = {} (a={}, b={})", a.len(), be, d, m, hex(a), hex(b)));
            }
        }
    }
    Ok(())
}

fn pair_json(v: Variant, a: &[u8], b: &[u8]) -> Value {
    json!({"variant": v.name, "a": hex(a), "b": hex(b)})
}

fn run_random(ctx: &Ctx) -> CheckResult {
    let cases = ctx.tier.pick(20_000u32, 400_000);
    let hooks = ctx.api.caps().hooks;
    for va in ctx.api.variants() {
        let v = va.v();
        ctx.pt_run(
            "random",
            &format!("random/{}", v.name),
            cases,
            gens::hash_pair_strategy(v),
            |(a, b): &(Vec<u8>, Vec<u8>)| pair_json(v, a, b),
            |(a, b): &(Vec<u8>, Vec<u8>), st: &CaseStats| {
                st.sample(|| json!({"check": "random", "variant": v.name, "a": hex(a), "b": hex(b)}));
                case_pair(va, a, b, hooks, st)
            },
        )?;
    }
    Ok(())
}

/// Sweeps all 256x256 values of one byte position on the given backgrounds.
/// Returns the first mismatching pair.
fn sweep_pos(va: &dyn VariantApi, bg_a: &[u8], bg_b: &[u8], pos: usize, no_length: bool) -> Option<(Vec<u8>, Vec<u8>)> {
    let v = va.v();
    let mut a = bg_a.to_vec();
    let mut b = bg_b.to_vec();
    // hashes for all 256 values of b
    let mut hbs: Vec<(H, vmodel::Hash)> = Vec::with_capacity(256);
    for y in 0..=255u8 {
        b[pos] = y;
        hbs.push((va.try_from_array(&b).ok()?, vmodel::Hash::from_bytes(v, &b)));
    }
    for x in 0..=255u8 {
        a[pos] = x;
        let ha = va.try_from_array(&a).ok()?;
        let ma = vmodel::Hash::from_bytes(v, &a);
        for y in 0..=255u8 {
            let (hb, mb) = &hbs[y as usize];
            if ha.compare(hb.as_ref(), no_length) != vmodel::distance(&ma, mb, no_length) {
                b[pos] = y;
                return Some((a, b));
            }
        }
    }
    None
}

fn backgrounds(ctx: &Ctx, v: Variant, n: usize) -> Vec<(Vec<u8>, Vec<u8>)> {
    let mut bgs = vec![(vec![0u8; v.size()], vec![0u8; v.size()])];
    let rnd = ctx.sample_values(&format!("bg/{}", v.name), n, &(proptest::collection::vec(any::<u8>(), v.size()), proptest::collection::vec(any::<u8>(), v.size())));
    // one "equal random background" (isolates the swept field) and independent ones (the sum)
    if let Some((a, _)) = rnd.first() {
        bgs.push((a.clone(), a.clone()));
    }
    bgs.extend(rnd);
    bgs
}

fn sweep(ctx: &Ctx, check: &str, positions: &dyn Fn(Variant) -> Vec<usize>, modes: &[bool], n_bg: usize) -> CheckResult {
    let live = Cell::new(true);
    for va in ctx.api.variants() {
        let v = va.v();
        let bgs = backgrounds(ctx, v, n_bg);
        let mut jobs: Vec<(usize, usize, bool)> = Vec::new();
        for (bi, _) in bgs.iter().enumerate() {
            for p in positions(v) {
                for &m in modes {
                    jobs.push((bi, p, m));
                }
            }
        }
        let res = par_map(ctx.threads, &jobs, |&(bi, p, m)| sweep_pos(va, &bgs[bi].0, &bgs[bi].1, p, m));
        {
            let mut ev = ctx.ev.borrow_mut();
            ev.evaluations += jobs.len() as u64 * 65536;
            // pairs with x != y are distinct by construction
            ev.nontrivial_enumerated += jobs.len() as u64 * 65280;
        }
        ctx.subcheck(check, jobs.len() as u64 * 65536);
        if let Some((a, b)) = res.into_iter().flatten().next() {
            let st = ctx.stats(check, &live);
            let msg = case_pair(va, &a, &b, false, &st).err().unwrap_or_else(|| "sweep mismatch did not reproduce".into());
            return Err(ctx.violation(check, msg, pair_json(v, &a, &b)));
        }
        ctx.ev.borrow_mut().sample(json!({"check": check, "variant": v.name, "positions": positions(v).len(), "backgrounds": bgs.len(),
            "example_background_a": hex(&bgs[bgs.len()-1].0), "example_background_b": hex(&bgs[bgs.len()-1].1)}));
    }
    Ok(())
}

fn run_header(ctx: &Ctx) -> CheckResult {
    let n_bg = ctx.tier.pick(1, 4);
    sweep(ctx, "header", &|v: Variant| (0..v.ck + 2).collect(), &[false, true], n_bg)?;
    ctx.exhaustive("256x256 values of every header byte (checksum bytes, length code, Q byte) on equal and independent backgrounds, both modes");
    Ok(())
}

fn run_body(ctx: &Ctx) -> CheckResult {
    let n_bg = ctx.tier.pick(1, 3);
    sweep(ctx, "body", &|v: Variant| (v.ck + 2..v.size()).collect(), &[false], n_bg)?;
    ctx.exhaustive("256x256 values of every body byte position on zero, equal-random and independent-random backgrounds");
    Ok(())
}

/// Per-backend body sweeps (hooks): every body byte position x 256x256.
fn run_backends(ctx: &Ctx) -> CheckResult {
    if !ctx.api.caps().hooks {
        ctx.skipped("backends: built without hooks");
        return Ok(());
    }
    let live = Cell::new(true);
    let mut available = Vec::new();
    for name in ["Short", "Normal", "Long"] {
        let va = variant_by_name(ctx.api, name).unwrap();
        let v = va.v();
        let n = v.body();
        let rnd = ctx.sample_values(&format!("bebg/{}", name), ctx.tier.pick(1, 4), &(proptest::collection::vec(any::<u8>(), n), proptest::collection::vec(any::<u8>(), n)));
        let mut bgs = vec![(vec![0u8; n], vec![0u8; n])];
        bgs.extend(rnd);
        let backends: Vec<DistBackend> = DIST_BACKENDS.iter().copied().filter(|&be| va.body_distance_by(be, &bgs[0].0, &bgs[0].1).is_some()).collect();
        available.push(format!("{}-byte: {:?}", n, backends));
        let mut jobs = Vec::new();
        for bi in 0..bgs.len() {
            for p in 0..n {
                for &be in &backends {
                    jobs.push((bi, p, be));
                }
            }
        }
        let res = par_map(ctx.threads, &jobs, |&(bi, p, be)| -> Option<(Vec<u8>, Vec<u8>)> {
            let mut a = bgs[bi].0.clone();
            let mut b = bgs[bi].1.clone();
            for x in 0..=255u8 {
                a[p] = x;
                for y in 0..=255u8 {
                    b[p] = y;
                    if va.body_distance_by(be, &a, &b) != Some(vmodel::distance_body(&a, &b)) {
                        return Some((a, b));
                    }
                }
            }
            None
        });
        {
            let mut ev = ctx.ev.borrow_mut();
            ev.evaluations += jobs.len() as u64 * 65536;
            ev.nontrivial_enumerated += jobs.len() as u64 * 65280;
        }
        ctx.subcheck("backends", jobs.len() as u64 * 65536);
        if let Some((a, b)) = res.into_iter().flatten().next() {
            let st = ctx.stats("backends", &live);
            let msg = backends_pair(va, &a, &b, &st).err().unwrap_or_else(|| "mismatch did not reproduce".into());
            return Err(ctx.violation("backends", msg, json!({"variant": name, "a_body": hex(&a), "b_body": hex(&b)})));
        }
    }
    ctx.note(format!("body-distance backends executed: {}", available.join("; ")));
    ctx.ev.borrow_mut().sample(json!({"check": "backends", "available": available}));
    ctx.exhaustive("256x256 values of every body byte position on every compiled body-distance backend");
    Ok(())
}

/// Cross-byte lane adjacency: for every boundary between body bytes p and p+1, all 4x4 x 4x4
/// combinations of (top dibit of byte p, low dibit of byte p+1) in a and b, on zero and random
/// backgrounds, through the public API and every compiled backend.  (The per-byte sweeps
/// enumerate the four dibits INSIDE a byte jointly; bit-sliced code shifts across byte
/// borders inside its 32/64-bit words, which only this sweep enumerates.)
/// Block-structured body pairs: the body is cut into blocks of 4, 8, 16 or 32 bytes and every
/// block is either equal in both hashes, different in every byte, or random; ALL 3^k block
/// patterns for k <= 8 blocks (wide-register code takes shortcuts per 16/32-byte lane: "this
/// half is identical", "no lane differs"), through the public API and every compiled backend.
fn run_blocks(ctx: &Ctx) -> CheckResult {
    let live = Cell::new(true);
    let hooks = ctx.api.caps().hooks;
    for va in ctx.api.variants() {
        let v = va.v();
        let hdr = v.ck + 2;
        let body = v.size() - hdr;
        let bases = ctx.sample_values(&format!("blocks/{}", v.name), ctx.tier.pick(2, 6), &(proptest::collection::vec(any::<u8>(), v.size()), proptest::collection::vec(any::<u8>(), v.size())));
        let mut jobs: Vec<(usize, usize, usize)> = Vec::new();
        for bs in [4usize, 8, 16, 32] {
            let k = body.div_ceil(bs);
            if k > 8 || k < 1 {
                continue;
            }
            for pat in 0..3usize.pow(k as u32) {
                for bi in 0..bases.len() {
                    jobs.push((bs, pat, bi));
                }
            }
        }
        let make = |bs: usize, pat: usize, bi: usize| -> (Vec<u8>, Vec<u8>) {
            let (a, mut b) = (bases[bi].0.clone(), bases[bi].1.clone());
            let mut p = pat;
            for blk in 0..body.div_ceil(bs) {
                let mode = p % 3;
                p /= 3;
                for i in hdr + blk * bs..(hdr + (blk + 1) * bs).min(v.size()) {
                    match mode {
                        0 => b[i] = a[i],
                        1 => {
                            if b[i] == a[i] {
                                b[i] = a[i] ^ 0x55 ^ (i as u8 & 0xAA);
                                if b[i] == a[i] {
                                    b[i] = !a[i];
                                }
                            }
                        }
                        _ => {}
                    }
                }
            }
            (a, b)
        };
        let res = par_map(ctx.threads, &jobs, |&(bs, pat, bi)| -> bool {
            let st = CaseStats::null();
            let (a, b) = make(bs, pat, bi);
            case_pair(va, &a, &b, hooks, &st).is_err() || case_pair(va, &b, &a, hooks, &st).is_err()
        });
        {
            let mut ev = ctx.ev.borrow_mut();
            ev.evaluations += jobs.len() as u64 * 8;
            ev.nontrivial_enumerated += jobs.len() as u64;
        }
        ctx.subcheck("blocks", jobs.len() as u64);
        if let Some(i) = res.iter().position(|&bad| bad) {
            let (bs, pat, bi) = jobs[i];
            let (a, b) = make(bs, pat, bi);
            let st = ctx.stats("blocks", &live);
            let msg = case_pair(va, &a, &b, hooks, &st).err().or_else(|| case_pair(va, &b, &a, hooks, &st).err()).unwrap_or_else(|| "mismatch did not reproduce".into());
            return Err(ctx.violation("blocks", format!("{} [block size {}, pattern #{} (base 3: 0 equal, 1 all bytes differ, 2 random)]", msg, bs, pat), pair_json(v, &a, &b)));
        }
    }
    ctx.ev.borrow_mut().sample(json!({"check": "blocks", "note": "all 3^k patterns of equal / all-different / random blocks of 4, 8, 16, 32 bytes (k <= 8), both argument orders"}));
    ctx.exhaustive("all 3^k equal/all-different/random block patterns of the body for block sizes with at most 8 blocks, public API and every backend");
    Ok(())
}

fn run_adjacent(ctx: &Ctx) -> CheckResult {
    let live = Cell::new(true);
    let hooks = ctx.api.caps().hooks;
    for va in ctx.api.variants() {
        let v = va.v();
        let hdr = v.ck + 2;
        let mut bgs = vec![(vec![0u8; v.size()], vec![0u8; v.size()])];
        bgs.extend(ctx.sample_values(&format!("adjbg/{}", v.name), ctx.tier.pick(2, 8), &(proptest::collection::vec(any::<u8>(), v.size()), proptest::collection::vec(any::<u8>(), v.size()))));
        let mut jobs = Vec::new();
        for bi in 0..bgs.len() {
            for p in hdr..v.size() - 1 {
                jobs.push((bi, p));
            }
        }
        let res = par_map(ctx.threads, &jobs, |&(bi, p)| -> Option<(Vec<u8>, Vec<u8>)> {
            let st = CaseStats::null();
            let (mut a, mut b) = (bgs[bi].0.clone(), bgs[bi].1.clone());
            for k in 0..256u32 {
                // k = (xa_hi, xb_hi, ya_lo, yb_lo) two bits each
                let (xa, xb, ya, yb) = ((k & 3) as u8, ((k >> 2) & 3) as u8, ((k >> 4) & 3) as u8, ((k >> 6) & 3) as u8);
                a[p] = (a[p] & 0x3f) | (xa << 6);
                b[p] = (b[p] & 0x3f) | (xb << 6);
                a[p + 1] = (a[p + 1] & 0xfc) | ya;
                b[p + 1] = (b[p + 1] & 0xfc) | yb;
                if case_pair(va, &a, &b, hooks, &st).is_err() {
                    return Some((a, b));
                }
            }
            None
        });
        {
            let mut ev = ctx.ev.borrow_mut();
            ev.evaluations += jobs.len() as u64 * 256 * 4;
            ev.nontrivial_enumerated += jobs.len() as u64 * 240;
        }
        ctx.subcheck("adjacent", jobs.len() as u64 * 256);
        if let Some((a, b)) = res.into_iter().flatten().next() {
            let st = ctx.stats("adjacent", &live);
            let msg = case_pair(va, &a, &b, hooks, &st).err().unwrap_or_else(|| "mismatch did not reproduce".into());
            return Err(ctx.violation("adjacent", msg, pair_json(v, &a, &b)));
        }
    }
    ctx.ev.borrow_mut().sample(json!({"check": "adjacent", "note": "every body byte boundary x 256 combinations of the two adjacent dibits in both hashes"}));
    ctx.exhaustive("all 256 combinations of the two dibits adjacent across every body byte boundary, on zero and random backgrounds, public API and every backend");
    Ok(())
}

pub fn replay(ctx: &Ctx, check: &str, case: &Value) -> Result<(), String> {
    let live = Cell::new(true);
    let st = ctx.stats("replay", &live);
    let name = case.get("variant").and_then(|x| x.as_str()).ok_or("no variant")?;
    let va = variant_by_name(ctx.api, name).ok_or("unknown variant")?;
    let g = |k: &str| case.get(k).and_then(|x| x.as_str()).map(unhex);
    match check {
        "backends" => backends_pair(va, &g("a_body").ok_or("a_body")?, &g("b_body").ok_or("b_body")?, &st),
        _ => case_pair(va, &g("a").ok_or("a")?, &g("b").ok_or("b")?, ctx.api.caps().hooks, &st),
    }
}
