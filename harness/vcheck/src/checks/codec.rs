//! Case functions shared by C04, C05, C06, C14, C15 (text / binary codecs).

use super::common::*;
use crate::api::*;
use crate::ctx::{catch, fnv, fnv_mix, hex, CaseStats};
use vmodel::text::{self, PrefixMode};

pub fn mode_of(p: Option<Prefix>) -> PrefixMode {
    match p {
        None => PrefixMode::Auto,
        Some(Prefix::Empty) => PrefixMode::Empty,
        Some(Prefix::WithVersion) => PrefixMode::WithVersion,
    }
}

pub const MODES: [Option<Prefix>; 3] = [None, Some(Prefix::Empty), Some(Prefix::WithVersion)];

pub fn store_vec(h: &dyn HashObj, n: usize) -> Result<Vec<u8>, String> {
    let mut b = vec![0u8; n];
    match h.store_bytes(&mut b) {
        Ok(k) if k == n => Ok(b),
        other => Err(format!("store_into_bytes into an exactly sized buffer returned {:?}", other)),
    }
}

fn show(s: &[u8]) -> String {
    if s.iter().all(|c| (0x20..0x7f).contains(c)) {
        format!("{:?}", String::from_utf8_lossy(s))
    } else {
        format!("hex:{}", hex(s))
    }
}

/// C04: format/parse round trip and canonical form of one hash value.
pub fn case_roundtrip(va: &dyn VariantApi, bytes: &[u8], st: &CaseStats) -> Result<(), String> {
    let v = va.v();
    let h = va.try_from_array(bytes).map_err(|e| format!("{}: TryFrom rejected {} with {:?}", v.name, hex(bytes), e))?;
    let stored = store_vec(h.as_ref(), v.size())?;
    // "the text is always exactly the advertised length": whatever formatter flags the caller uses
    let plain = h.display();
    for (spec, text) in h.display_flags() {
        st.eval();
        if text != plain {
            return Err(format!("{}: format!(\"{}\", h) = {:?} but Display without flags gives {:?} (advertised length {})", v.name, spec, text, plain, v.len_str()));
        }
    }
    let mut with_version_text = Vec::new();
    for (p, with) in [(Prefix::Empty, false), (Prefix::WithVersion, true)] {
        let want_len = if with { v.len_str() } else { v.len_hex() };
        let c = va.consts();
        if (c.len_in_str, c.len_in_str_except_prefix) != (v.len_str(), v.len_hex()) {
            return Err(format!("{}: advertised LEN_IN_STR/LEN_IN_STR_EXCEPT_PREFIX = {}/{} != {}/{}", v.name, c.len_in_str, c.len_in_str_except_prefix, v.len_str(), v.len_hex()));
        }
        // the text a caller gets is the same whatever buffer it is written into: a larger buffer,
        // and one that starts at an odd address
        for (off, slack) in [(1usize, 0usize), (0, 8), (1, 23), (3, 40)] {
            let mut big = vec![0xEEu8; off + want_len + slack];
            let n = h.store_str(&mut big[off..], p).map_err(|e| format!("{}: store_into_str_bytes({:?}) into a buffer of {} + {} bytes failed: {:?}", v.name, p, want_len, slack, e))?;
            st.eval();
            if n != want_len || big[off..off + want_len] != text::encode(v, &stored, with)[..] {
                return Err(format!(
                    "{}: store_into_str_bytes({:?}) into a buffer of {} + {} bytes at address offset {} wrote {} (returned {}) != reference encoding {}",
                    v.name,
                    p,
                    want_len,
                    slack,
                    off,
                    show(&big[off..off + want_len]),
                    n,
                    show(&text::encode(v, &stored, with))
                ));
            }
        }
        let mut buf = vec![0u8; want_len];
        let n = h.store_str(&mut buf, p).map_err(|e| format!("{}: store_into_str_bytes({:?}) into exact buffer failed: {:?}", v.name, p, e))?;
        st.eval();
        if n != want_len {
            return Err(format!("{}: store_into_str_bytes({:?}) returned {} != advertised {}", v.name, p, n, want_len));
        }
        let digits = if with { &buf[2..] } else { &buf[..] };
        if with && &buf[..2] != b"T1" {
            return Err(format!("{}: text {} does not start with T1", v.name, show(&buf)));
        }
        if !digits.iter().all(|c| c.is_ascii_digit() || (b'A'..=b'F').contains(c)) {
            return Err(format!("{}: text {} is not upper-case hexadecimal", v.name, show(&buf)));
        }
        let model = text::encode(v, &stored, with);
        if buf != model {
            return Err(format!("{}: text form {} != reference encoding {} of bytes {}", v.name, show(&buf), show(&model), hex(&stored)));
        }
        // parse back through every entry point
        let s = std::str::from_utf8(&buf).map_err(|_| "text is not UTF-8".to_string())?;
        let mut parsed: Vec<(&str, Result<H, PErr>)> = vec![
            ("from_str_bytes(None)", va.from_str_bytes(&buf, None)),
            ("from_str_bytes(Some(matching))", va.from_str_bytes(&buf, Some(p))),
            ("from_str_with(None)", va.from_str_with(s, None)),
            ("from_str_with(Some(matching))", va.from_str_with(s, Some(p))),
            ("FromStr", va.from_str(s)),
        ];
        for (what, r) in parsed.drain(..) {
            st.eval();
            match r {
                Err(e) => return Err(format!("{}: {} rejected own output {} with {:?}", v.name, what, s, e)),
                Ok(h2) => {
                    if !h2.equals(h.as_ref()) || store_vec(h2.as_ref(), v.size())? != stored {
                        return Err(format!("{}: {}(format(h)) != h for h={} text={}", v.name, what, hex(&stored), s));
                    }
                }
            }
        }
        if with {
            with_version_text = buf.clone();
        }
    }
    let d = h.display();
    let t = h.to_string_();
    st.eval();
    if d.as_bytes() != &with_version_text[..] || t != d {
        return Err(format!("{}: Display {:?} / to_string {:?} differ from store_into_str_bytes(WithVersion) {}", v.name, d, t, show(&with_version_text)));
    }
    let hdr = v.ck + 2;
    if bytes[..hdr].iter().any(|b| b >> 4 != b & 15) && bytes[hdr..].iter().any(|&b| b >= 0xA0) {
        st.nontrivial(fnv_mix(fnv(v.name.as_bytes()), fnv(bytes)));
    }
    Ok(())
}

/// C04: every string the parser ACCEPTS re-formats to its own upper-case form
/// (prefix normalised): format(parse(s), WithVersion) == "T1" + upper(strip_prefix(s)).
/// Acceptance is the implementation's; the expected text is computed syntactically.
pub fn case_canonical(va: &dyn VariantApi, s: &[u8], st: &CaseStats) -> Result<(), String> {
    let v = va.v();
    // every prefix mode: whatever a mode accepts must re-format to its own upper-case form, where
    // "its own form" strips a leading "T1" exactly when that mode reads the string as prefixed
    let mut accepted = false;
    for p in MODES {
        st.eval();
        let h = match va.from_str_bytes(s, p) {
            Ok(h) => h,
            Err(e) => {
                if p.is_none() {
                    st.class(&format!("canonical: rejected {:?}", e));
                }
                continue;
            }
        };
        accepted = true;
        let prefixed = match p {
            Some(Prefix::WithVersion) => true,
            Some(Prefix::Empty) => false,
            None => s.len() == v.len_str(),
        };
        // a string read as prefixed is its own form as a whole (its first two characters must be
        // the prefix, not merely be skipped); a bare one gets the prefix prepended
        let mut canon = if prefixed { Vec::new() } else { b"T1".to_vec() };
        canon.extend(s.iter().map(|c| c.to_ascii_uppercase()));
        let mut buf = vec![0u8; v.len_str()];
        h.store_str(&mut buf, Prefix::WithVersion).map_err(|e| format!("store failed {:?}", e))?;
        if buf != canon {
            return Err(format!(
                "{}: the parser (prefix mode {:?}) accepts {} but re-formatting gives {} instead of its own upper-case form {} (so two different accepted strings denote the same hash, or the accepted text was not exactly the hexadecimal form)",
                v.name,
                p,
                show(s),
                show(&buf),
                show(&canon)
            ));
        }
    }
    if !accepted {
        return Ok(());
    }
    let mut canon = b"T1".to_vec();
    canon.extend(s.iter().skip(if s.len() == v.len_str() { 2 } else { 0 }).map(|c| c.to_ascii_uppercase()));
    st.class("canonical: accepted");
    if s != &canon[..] {
        st.nontrivial(fnv_mix(fnv(v.name.as_bytes()), fnv(s)));
    }
    Ok(())
}

/// C05 / C15: one parser call against the model predicate.
pub fn case_parse(va: &dyn VariantApi, s: &[u8], p: Option<Prefix>, strict: bool, st: &CaseStats) -> Result<(), String> {
    let v = va.v();
    let mode = mode_of(p);
    let applicable = text::applicable_errors(v, s, mode, strict);
    let lenient_applicable = text::applicable_errors(v, s, mode, false);
    let expect_bytes = if applicable.is_empty() { text::decode(v, s, mode) } else { None };
    let judge = |what: &str, r: Result<Result<H, PErr>, String>| -> Result<(), String> {
        st.eval();
        let r = r.map_err(|pm| format!("{}: {}({}, {:?}) panicked: {}", v.name, what, show(s), p, pm))?;
        match (r, &expect_bytes) {
            (Ok(h), Some(want)) => {
                let got = store_vec(h.as_ref(), v.size())?;
                if &got != want {
                    return Err(format!("{}: {}({}) = {} but the digits denote {}", v.name, what, show(s), hex(&got), hex(want)));
                }
                Ok(())
            }
            (Ok(h), None) => Err(format!(
                "{}: {}({}, {:?}) accepted (as {}) an input that is not well-formed: applicable errors {:?}",
                v.name,
                what,
                show(s),
                p,
                store_vec(h.as_ref(), v.size()).map(|b| hex(&b)).unwrap_or_default(),
                applicable
            )),
            (Err(e), Some(_)) => Err(format!("{}: {}({}, {:?}) rejected a well-formed input with {:?}", v.name, what, show(s), p, e)),
            (Err(e), None) => {
                let ok = e.to_model().map(|m| applicable.contains(&m)).unwrap_or(false);
                if !ok {
                    return Err(format!("{}: {}({}, {:?}) reported {:?} which does not apply; applicable: {:?}", v.name, what, show(s), p, e, applicable));
                }
                Ok(())
            }
        }
    };
    judge("from_str_bytes", catch(|| va.from_str_bytes(s, p)))?;
    {
        // the same bytes at another address: a Vec is at least 8-aligned, so shift the copy by
        // 1, 2 and 5 bytes (code that reads digit pairs or words through aligned accesses must
        // not depend on where the caller's slice starts)
        let mut shifted = vec![0x30u8; s.len() + 8];
        for off in [1usize, 2, 5] {
            shifted[off..off + s.len()].copy_from_slice(s);
            let piece = &shifted[off..off + s.len()];
            judge("from_str_bytes (input at a shifted address)", catch(|| va.from_str_bytes(piece, p)))?;
        }
    }
    if let Ok(text) = std::str::from_utf8(s) {
        judge("from_str_with", catch(|| va.from_str_with(text, p)))?;
        if p.is_none() {
            judge("FromStr::from_str", catch(|| va.from_str(text)))?;
        }
    }
    // classification
    let cls = if applicable.is_empty() {
        if s.iter().any(|c| c.is_ascii_lowercase()) {
            "accepted (has lower case)"
        } else {
            "accepted"
        }
    } else if applicable == [text::ParseErr::InvalidStringLength] {
        "wrong length"
    } else if applicable.len() > 1 {
        "several errors apply"
    } else {
        match applicable[0] {
            text::ParseErr::InvalidPrefix => "bad prefix",
            text::ParseErr::InvalidCharacter => "bad character",
            text::ParseErr::InvalidChecksum => "strict: invalid checksum",
            text::ParseErr::LengthIsTooLarge => "strict: length code too large",
            _ => "other",
        }
    };
    st.class(cls);
    if strict && lenient_applicable.is_empty() != applicable.is_empty() {
        st.class("lenient and strict verdicts differ");
    }
    Ok(())
}

/// C06: binary form, accessors and the two serialisations of one value.
pub fn case_binary(va: &dyn VariantApi, b: &[u8], st: &CaseStats) -> Result<(), String> {
    let v = va.v();
    let n = v.size();
    let c = va.consts();
    if c.size_in_bytes != n || c.number_of_buckets != v.buckets || c.checksum_size != v.ck || c.body_size != v.body() || c.body_num_buckets != v.buckets {
        return Err(format!("{}: advertised constants {:?} do not match the variant", v.name, c));
    }
    let ha = va.try_from_array(b).map_err(|e| format!("{}: TryFrom<&[u8; N]> rejected {} with {:?}", v.name, hex(b), e))?;
    let hs = va.try_from_slice(b).map_err(|e| format!("{}: TryFrom<&[u8]> rejected {} with {:?}", v.name, hex(b), e))?;
    st.eval();
    if !ha.equals(hs.as_ref()) {
        return Err(format!("{}: array and slice conversions of {} differ", v.name, hex(b)));
    }
    for (what, h) in [("array", &ha), ("slice", &hs)] {
        let out = store_vec(h.as_ref(), n)?;
        st.eval();
        if out != b {
            return Err(format!("{}: store(try_from({})) via {} = {}", v.name, hex(b), what, hex(&out)));
        }
    }
    // storing into a LARGER buffer gives the same N bytes at the front (and converts back)
    for extra in [1usize, 7, 64] {
        let mut big = vec![0xC3u8; n + extra];
        st.eval();
        match ha.store_bytes(&mut big) {
            Ok(k) if k == n => {
                if big[..n] != *b {
                    return Err(format!("{}: store_into_bytes into a buffer of {} bytes wrote {} instead of {} in its first {} bytes", v.name, n + extra, hex(&big[..n]), hex(b), n));
                }
                match va.try_from_slice(&big[..n]) {
                    Ok(h2) if h2.equals(ha.as_ref()) => {}
                    other => return Err(format!("{}: try_from(first N bytes stored into a larger buffer) gave {:?}", v.name, other.map(|x| x.display()))),
                }
            }
            other => return Err(format!("{}: store_into_bytes into a buffer of {} bytes returned {:?}", v.name, n + extra, other)),
        }
    }
    // try_from(store(h)) == h
    let again = va.try_from_slice(&store_vec(ha.as_ref(), n)?).map_err(|e| format!("re-conversion failed {:?}", e))?;
    if !again.equals(ha.as_ref()) {
        return Err(format!("{}: try_from(store(h)) != h for {}", v.name, hex(b)));
    }
    // accessors
    let h = ha.as_ref();
    st.eval();
    let ck = v.ck;
    if h.checksum() != b[..ck] {
        return Err(format!("{}: checksum().data() = {} != first {} byte(s) of {}", v.name, hex(&h.checksum()), ck, hex(b)));
    }
    if h.lvalue() != b[ck] {
        return Err(format!("{}: length().value() = {} != byte {} of {}", v.name, h.lvalue(), ck, hex(b)));
    }
    if h.qvalue() != b[ck + 1] || h.q1() != b[ck + 1] & 15 || h.q2() != b[ck + 1] >> 4 {
        return Err(format!("{}: qratios value/q1/q2 = {:#04x}/{}/{} but the Q byte is {:#04x} (Q2 in the high nibble)", v.name, h.qvalue(), h.q1(), h.q2(), b[ck + 1]));
    }
    if h.body() != b[ck + 2..] {
        return Err(format!("{}: body().data() = {} != trailing bytes of {}", v.name, hex(&h.body()), hex(b)));
    }
    for i in 0..v.buckets {
        let want = (b[n - 1 - i / 4] >> (2 * (i % 4))) & 3;
        let got = catch(|| h.quartile(i)).map_err(|p| format!("{}: quartile({}) panicked: {}", v.name, i, p))?;
        if got != want {
            return Err(format!("{}: quartile({}) = {} != {} for {}", v.name, i, got, want, hex(b)));
        }
    }
    st.eval();
    for i in [v.buckets, v.buckets + 1, v.buckets * 4, usize::MAX / 2, usize::MAX] {
        if let Ok(x) = catch(|| h.quartile(i)) {
            return Err(format!("{}: quartile({}) returned {} instead of panicking (documented: index must be < {})", v.name, i, x, v.buckets));
        }
    }
    // hex form == "T1" + hex(swap_nibbles(header)) + hex(body)
    let mut buf = vec![0u8; v.len_str()];
    h.store_str(&mut buf, Prefix::WithVersion).map_err(|e| format!("store_str failed {:?}", e))?;
    let model = text::encode(v, b, true);
    st.eval();
    if buf != model {
        return Err(format!("{}: hex form {} != T1 + swapped header + body = {}", v.name, show(&buf), show(&model)));
    }
    // clear_checksum zeroes exactly the checksum bytes
    let mut cl = ha.boxed_clone();
    cl.clear_checksum();
    let out = store_vec(cl.as_ref(), n)?;
    let mut want = b.to_vec();
    want[..ck].iter_mut().for_each(|x| *x = 0);
    st.eval();
    if out != want {
        return Err(format!("{}: clear_checksum turned {} into {} (expected {})", v.name, hex(b), hex(&out), hex(&want)));
    }
    if cl.checksum().iter().any(|&x| x != 0) {
        return Err(format!("{}: checksum accessor non-zero after clear_checksum", v.name));
    }
    let cks = &b[..ck];
    let distinct = (0..ck).all(|i| cks[i] != 0 && (0..i).all(|j| cks[j] != cks[i]));
    if distinct && b[ck + 1] & 15 != b[ck + 1] >> 4 {
        st.nontrivial(fnv_mix(fnv(v.name.as_bytes()), fnv(b)));
    }
    Ok(())
}

/// C06: a slice of any length other than N is a length error (and N converts).
pub fn case_slice_len(va: &dyn VariantApi, s: &[u8], strict: bool, st: &CaseStats) -> Result<(), String> {
    let v = va.v();
    st.eval();
    let r = catch(|| va.try_from_slice(s)).map_err(|p| format!("{}: TryFrom<&[u8]> of {} bytes panicked: {}", v.name, s.len(), p))?;
    if s.len() != v.size() {
        match r {
            Err(PErr::InvalidStringLength) => Ok(()),
            Err(e) => Err(format!("{}: slice of {} bytes rejected with {:?} instead of the length error", v.name, s.len(), e)),
            Ok(_) => Err(format!("{}: slice of {} bytes accepted (N = {})", v.name, s.len(), v.size())),
        }
    } else {
        let errs = if strict { text::strict_errors(v, s) } else { vec![] };
        match r {
            Ok(h) => {
                if !errs.is_empty() {
                    return Err(format!("{}: strict build accepted {} although {:?} applies", v.name, hex(s), errs));
                }
                if store_vec(h.as_ref(), v.size())? != s {
                    return Err(format!("{}: slice round trip changed {}", v.name, hex(s)));
                }
                Ok(())
            }
            Err(e) => {
                if e.to_model().map(|m| errs.contains(&m)).unwrap_or(false) {
                    Ok(())
                } else {
                    Err(format!("{}: right-sized slice {} rejected with {:?} (applicable: {:?})", v.name, hex(s), e, errs))
                }
            }
        }
    }
}

#[derive(Debug, Clone, Copy, PartialEq, Eq, serde::Serialize, serde::Deserialize)]
pub enum Form {
    Bytes,
    Hex,
    HexPrefix,
}
pub const FORMS: [Form; 3] = [Form::Bytes, Form::Hex, Form::HexPrefix];

pub fn prefill(kind: u8, seed: u64, len: usize) -> Vec<u8> {
    match kind % 4 {
        0 => {
            let mut r = crate::gens::Xs::new(seed);
            (0..len).map(|_| r.byte()).collect()
        }
        1 => vec![0x00; len],
        2 => vec![0xFF; len],
        _ => vec![b'A'; len],
    }
}

/// C14: one store call into a buffer of length `l`.
pub fn case_buffer(va: &dyn VariantApi, b: &[u8], form: Form, l: usize, fill_kind: u8, seed: u64, st: &CaseStats) -> Result<(), String> {
    let v = va.v();
    let h = va.try_from_array(b).map_err(|e| format!("{}: TryFrom rejected {} with {:?}", v.name, hex(b), e))?;
    let (n, repr) = match form {
        Form::Bytes => (v.size(), b.to_vec()),
        Form::Hex => (v.len_hex(), text::encode(v, b, false)),
        Form::HexPrefix => (v.len_str(), text::encode(v, b, true)),
    };
    let before = prefill(fill_kind, seed, l);
    // the buffer at an odd address inside a larger allocation: same verdict, same bytes, and the
    // bytes before and after the slice untouched
    {
        let off = 1 + (seed % 3) as usize * 2; // 1, 3 or 5
        let mut outer = vec![0xC3u8; off + l + 9];
        outer[off..off + l].copy_from_slice(&before);
        let r = catch(std::panic::AssertUnwindSafe(|| match form {
            Form::Bytes => h.store_bytes(&mut outer[off..off + l]),
            Form::Hex => h.store_str(&mut outer[off..off + l], Prefix::Empty),
            Form::HexPrefix => h.store_str(&mut outer[off..off + l], Prefix::WithVersion),
        }))
        .map_err(|p| format!("{}: store ({:?}) into a buffer of {} bytes at an odd address panicked: {}", v.name, form, l, p))?;
        st.eval();
        if outer[..off].iter().chain(&outer[off + l..]).any(|&x| x != 0xC3) {
            return Err(format!("{}: store ({:?}) into a {}-byte slice at address offset {} modified bytes outside the slice", v.name, form, l, off));
        }
        match r {
            Ok(k) if l >= n && k == n => {
                if outer[off..off + n] != repr[..] || outer[off + n..off + l] != before[n..] {
                    return Err(format!("{}: store ({:?}) into a {}-byte slice at address offset {} wrote {} + tail, expected {} and an untouched tail", v.name, form, l, off, show(&outer[off..off + n]), show(&repr)));
                }
            }
            Err(OErr::BufferIsTooSmall) if l < n => {}
            other => return Err(format!("{}: store ({:?}) into a {}-byte slice at address offset {} returned {:?} (advertised size {})", v.name, form, l, off, other, n)),
        }
    }
    // exactly-sized heap buffer: a write past the slice is at least past the Vec's length
    let mut buf = before.clone();
    st.eval();
    let r = catch(|| match form {
        Form::Bytes => h.store_bytes(&mut buf),
        Form::Hex => h.store_str(&mut buf, Prefix::Empty),
        Form::HexPrefix => h.store_str(&mut buf, Prefix::WithVersion),
    })
    .map_err(|p| format!("{}: store ({:?}) into a buffer of {} bytes panicked: {}", v.name, form, l, p))?;
    if buf.len() != l {
        return Err("buffer length changed".into());
    }
    if l < n {
        match r {
            Err(OErr::BufferIsTooSmall) => {
                if buf != before {
                    st.class("observation: failed store modified the buffer");
                }
                st.class("too small -> error");
                Ok(())
            }
            other => Err(format!("{}: store ({:?}) into {} < {} bytes returned {:?} instead of BufferIsTooSmall", v.name, form, l, n, other)),
        }
    } else {
        match r {
            Ok(k) if k == n => {
                if buf[..n] != repr[..] {
                    return Err(format!("{}: store ({:?}) wrote {} != representation {}", v.name, form, show(&buf[..n]), show(&repr)));
                }
                if buf[n..] != before[n..] {
                    let first = (n..l).find(|&i| buf[i] != before[i]).unwrap();
                    return Err(format!("{}: store ({:?}) into a buffer of {} bytes modified byte {} beyond the advertised size {}", v.name, form, l, first, n));
                }
                st.class(if l == n { "exact size" } else { "oversized: tail untouched" });
                Ok(())
            }
            other => Err(format!("{}: store ({:?}) into {} >= {} bytes returned {:?} instead of Ok({})", v.name, form, l, n, other, n)),
        }
    }
}

/// C15: every hash the generator produces satisfies the strict conditions.
pub fn case_generated_valid(va: &dyn VariantApi, data: &[u8], strict: bool, st: &CaseStats) -> Result<(), String> {
    let v = va.v();
    let mut g = va.generator();
    g.update(data);
    let mut any = false;
    for oi in 0..32 {
        let Ok(h) = g.finalize(Opts::from_index(oi)) else { continue };
        any = true;
        st.eval();
        if !h.checksum_valid() || !h.length_valid() {
            return Err(format!("{}: generated hash {} (options {}) has checksum_valid={} length_valid={}", v.name, h.display(), opt_name(oi), h.checksum_valid(), h.length_valid()));
        }
        if v.buckets == 48 && h.checksum()[0] > 48 {
            return Err(format!("{}: generated 48-bucket checksum {} > 48", v.name, h.checksum()[0]));
        }
        if h.lvalue() >= 170 {
            return Err(format!("{}: generated length code {} >= 170", v.name, h.lvalue()));
        }
        if strict {
            let t = h.display();
            match va.from_str(&t) {
                Ok(h2) if h2.equals(h.as_ref()) => {}
                other => return Err(format!("{}: strict parse(format(h)) of generated {} gave {:?}", v.name, t, other.map(|x| x.display()))),
            }
            let b = store_vec(h.as_ref(), v.size())?;
            match va.try_from_slice(&b) {
                Ok(h2) if h2.equals(h.as_ref()) => {}
                other => return Err(format!("{}: strict try_from(store(h)) of generated {} gave {:?}", v.name, t, other.map(|x| x.display()))),
            }
        }
    }
    if any {
        st.nontrivial(fnv_mix(fnv(v.name.as_bytes()), fnv(data)));
        st.class("generated: some option accepts");
    } else {
        st.class("generated: rejected under all options");
    }
    Ok(())
}

pub fn variant_of<'a>(api: &'a dyn GlobalApi, case: &serde_json::Value) -> Result<&'a dyn VariantApi, String> {
    let name = case.get("variant").and_then(|x| x.as_str()).ok_or("no variant")?;
    variant_by_name(api, name).ok_or_else(|| "unknown variant".to_string())
}

pub fn bytes_of(case: &serde_json::Value, key: &str) -> Result<Vec<u8>, String> {
    case.get(key).and_then(|x| x.as_str()).map(crate::ctx::unhex).ok_or_else(|| format!("no {}", key))
}

pub fn prefix_of(case: &serde_json::Value) -> Option<Prefix> {
    match case.get("prefix").and_then(|x| x.as_str()) {
        Some("Empty") => Some(Prefix::Empty),
        Some("WithVersion") => Some(Prefix::WithVersion),
        _ => None,
    }
}

pub fn prefix_json(p: Option<Prefix>) -> serde_json::Value {
    match p {
        None => serde_json::Value::Null,
        Some(Prefix::Empty) => "Empty".into(),
        Some(Prefix::WithVersion) => "WithVersion".into(),
    }
}
