//! C10 — published length limits are enforced; permissive options only widen acceptance.

use super::common::*;
use super::{CheckResult, Sub};
use crate::api::*;
use crate::ctx::{fnv, fnv_mix, CaseStats, Ctx};
use crate::gens::{self, DataSpec, StateSpec};
use serde_json::{json, Value};
use std::cell::Cell;

pub fn subs() -> Vec<Sub> {
    vec![Sub { name: "constants", run: run_constants }, Sub { name: "data", run: run_data }, Sub { name: "state", run: run_state }]
}

type Res = Result<Vec<u8>, GErr>;

fn results(va: &dyn VariantApi, g: &dyn GenObj) -> Result<Vec<Res>, String> {
    let n = va.v().size();
    (0..32)
        .map(|oi| match g.finalize(Opts::from_index(oi)) {
            Ok(h) => Ok(Ok(super::codec::store_vec(h.as_ref(), n)?)),
            Err(e) => Ok(Err(e)),
        })
        .collect()
}

/// o <= o' in the permissiveness order (same Q-ratio mode).
fn leq(a: Opts, b: Opts) -> bool {
    let he = |o: Opts| o.allow_half || o.allow_quarter;
    a.pure_integer == b.pure_integer
        && (a.conservative || !b.conservative)
        && (!a.allow_small || b.allow_small)
        && (!he(a) || he(b))
        && (!a.allow_quarter || b.allow_quarter)
}

/// The lattice law and the length-error characterisation for one generator.
pub fn case_lattice(api: &dyn GlobalApi, va: &dyn VariantApi, g: &dyn GenObj, st: &CaseStats) -> Result<bool, String> {
    let v = va.v();
    let res = results(va, g)?;
    let n = g.processed_len().unwrap_or(u32::MAX);
    let what = format!("{} after {:?} bytes", v.name, g.processed_len());
    let sh = |r: &Res| match r {
        Ok(b) => crate::ctx::hex(b),
        Err(e) => format!("{:?}", e),
    };
    let mut widened = false;
    for a in 0..32 {
        for b in 0..32 {
            let (oa, ob) = (Opts::from_index(a), Opts::from_index(b));
            if a == b || !leq(oa, ob) {
                continue;
            }
            st.eval();
            if let Ok(h) = &res[a] {
                if res[b].as_ref() != Ok(h) {
                    return Err(format!(
                        "{}: options {} give {} but the more permissive {} give {}",
                        what,
                        opt_name(a),
                        sh(&res[a]),
                        opt_name(b),
                        sh(&res[b])
                    ));
                }
            } else if res[b].is_ok() {
                widened = true;
            }
        }
    }
    // quarter alone behaves as quarter+half
    for a in 0..32 {
        let o = Opts::from_index(a);
        if o.allow_quarter && !o.allow_half {
            let b = a | 8;
            st.eval();
            if res[a] != res[b] {
                return Err(format!("{}: allowing three-quarter-empty buckets must imply allowing half-empty ones, but {} give {} and {} give {}", what, opt_name(a), sh(&res[a]), opt_name(b), sh(&res[b])));
            }
        }
    }
    // an options object built by any other sequence of setter calls (any order, repeated, switched
    // on and off again) denotes "last write per field": six of the ~600 enumerated sequences
    // per case, chosen by the case digest
    {
        thread_local! {
            static SEQS: Vec<Vec<(u8, bool)>> = setter_sequences();
        }
        let digest = res.iter().fold(fnv_mix(n as u64, 0x10), |h, r| match r {
            Ok(b) => fnv_mix(h, fnv(b)),
            Err(e) => fnv_mix(h, *e as u64 + 1),
        });
        let shown: Vec<String> = res.iter().map(|r| format!("{:?}", r.as_ref().map(|b| crate::ctx::hex(b)))).collect();
        SEQS.with(|seqs| -> Result<(), String> {
            for j in 0..6u64 {
                let seq = &seqs[(digest.wrapping_add(j.wrapping_mul(0x9E37_79B9_7F4A_7C15)) % seqs.len() as u64) as usize];
                let eff = setters_effective(seq);
                let r = crate::ctx::catch(|| g.finalize_setters(seq)).map_err(|p| format!("{}: finalize after {} panicked: {}", what, setters_name(seq), p))?;
                let got = match r {
                    Ok(h) => Ok(super::codec::store_vec(h.as_ref(), v.size())?),
                    Err(e) => Err(e),
                };
                st.eval();
                if got != res[eff.index()] {
                    return Err(format!(
                        "{}: GeneratorOptions::new().{} denotes {} but gives {:?} where the same setting built in declaration order gives {}",
                        what,
                        setters_name(seq),
                        opt_name(eff.index()),
                        got.as_ref().map(|b| crate::ctx::hex(b)),
                        shown[eff.index()]
                    ));
                }
            }
            Ok(())
        })?;
    }
    // length errors
    let val = va.validity(n);
    for a in 0..32 {
        let o = Opts::from_index(a);
        let expect_len_err = api.validity_is_err_on(val, o.conservative) && !(o.allow_small && val != Validity::TooLarge);
        let got_len_err = match &res[a] {
            Err(e) => api.gerr_category(*e) == GCat::DataLength,
            Ok(_) => false,
        };
        st.eval();
        if expect_len_err != got_len_err {
            return Err(format!(
                "{}: with {} the validity class is {:?} (is_err_on = {}) so a data-length error is {} but finalize gave {}",
                what,
                opt_name(a),
                val,
                api.validity_is_err_on(val, o.conservative),
                if expect_len_err { "expected" } else { "not expected" },
                sh(&res[a])
            ));
        }
        if got_len_err {
            let too_large = res[a] == Err(GErr::TooLarge);
            if too_large != (val == Validity::TooLarge) {
                return Err(format!("{}: length error {} does not match validity class {:?}", what, sh(&res[a]), val));
            }
        }
    }
    let least = Opts { conservative: true, pure_integer: false, allow_small: false, allow_half: false, allow_quarter: false };
    st.class(&format!("validity {:?}", val));
    match &res[0] {
        Err(GErr::HalfEmpty) => st.class("default options: half-empty"),
        Err(GErr::ThreeQuarterEmpty) => st.class("default options: three-quarter-empty"),
        Err(GErr::TooSmall) => st.class("default options: too small"),
        Err(GErr::TooLarge) => st.class("default options: too large"),
        _ => st.class("default options: ok"),
    }
    Ok(widened || res[least.index()].is_ok())
}

fn run_data(ctx: &Ctx) -> CheckResult {
    let cases = ctx.tier.pick(6000u32, 60_000);
    for va in ctx.api.variants() {
        let v = va.v();
        ctx.pt_run(
            "data",
            &format!("data/{}", v.name),
            cases,
            gens::data_strategy(v, 2000),
            |d: &DataSpec| json!({"variant": v.name, "data": d.to_json()}),
            |d: &DataSpec, st: &CaseStats| {
                let data = d.render();
                let mut g = va.generator();
                g.update(&data);
                st.sample(|| json!({"check": "data", "variant": v.name, "len": data.len()}));
                if case_lattice(ctx.api, va, g.as_ref(), st)? {
                    st.nontrivial(fnv_mix(fnv(v.name.as_bytes()), fnv(&data)));
                }
                Ok(())
            },
        )?;
    }
    Ok(())
}

fn run_state(ctx: &Ctx) -> CheckResult {
    if !ctx.api.caps().hooks {
        ctx.skipped("state: built without hooks");
        return Ok(());
    }
    let cases = ctx.tier.pick(5000u32, 50_000);
    for va in ctx.api.variants() {
        let v = va.v();
        ctx.pt_run(
            "state",
            &format!("state/{}", v.name),
            cases,
            gens::state_strategy(v),
            |s: &StateSpec| json!({"variant": v.name, "state": s.render(v)}),
            |s: &StateSpec, st: &CaseStats| {
                let gs = s.render(v);
                let g = va.gen_from_state(&gs).ok_or("no hooks")?;
                st.sample(|| json!({"check": "state", "variant": v.name, "spec": s, "n": gs.len as u64 + 4}));
                if case_lattice(ctx.api, va, g.as_ref(), st)? {
                    st.nontrivial(fnv_mix(fnv(v.name.as_bytes()), fnv_mix(s.seed, gs.len as u64)));
                }
                Ok(())
            },
        )?;
    }
    Ok(())
}

/// MIN / MIN_CONSERVATIVE / MAX are the thresholds at which the validity class changes,
/// they are the published values, and is_err is is_err_on for both modes.
pub fn case_constants(api: &dyn GlobalApi, va: &dyn VariantApi) -> Result<u64, String> {
    let v = va.v();
    let c = va.consts();
    let mut evals = 0u64;
    if (c.gen_min as u64, c.gen_min_conservative as u64, c.gen_max as u64) != (v.min_len(), v.min_len_conservative(), vmodel::MAX_LEN) {
        return Err(format!("{}: MIN/MIN_CONSERVATIVE/MAX = {}/{}/{} but the published limits are {}/{}/{}", v.name, c.gen_min, c.gen_min_conservative, c.gen_max, v.min_len(), v.min_len_conservative(), vmodel::MAX_LEN));
    }
    let mut ns: Vec<u32> = (0..=1200).collect();
    for d in 0..=40u32 {
        ns.push(c.gen_max - 20 + d);
    }
    ns.extend([u32::MAX, u32::MAX - 1, 1 << 31, (1 << 31) - 1, 1 << 24]);
    let mut prev: Option<(u32, Validity)> = None;
    for n in ns {
        let val = va.validity(n);
        evals += 1;
        let model = match vmodel::validity(v, n as u64) {
            vmodel::Validity::TooSmall => Validity::TooSmall,
            vmodel::Validity::ValidWhenOptimistic => Validity::ValidWhenOptimistic,
            vmodel::Validity::Valid => Validity::Valid,
            vmodel::Validity::TooLarge => Validity::TooLarge,
        };
        if val != model {
            return Err(format!("{}: DataLengthValidity::new({}) = {:?} but the published limits give {:?}", v.name, n, val, model));
        }
        // the class changes exactly at the generator's constants
        if let Some((pn, pv)) = prev {
            if pn + 1 == n && pv != val {
                let at = [c.gen_min, c.gen_min_conservative, c.gen_max.wrapping_add(1)];
                if !at.contains(&n) {
                    return Err(format!("{}: validity changes from {:?} to {:?} at {} which is none of MIN={}, MIN_CONSERVATIVE={}, MAX+1={}", v.name, pv, val, n, at[0], at[1], at[2]));
                }
            }
        }
        prev = Some((n, val));
        let e = api.validity_is_err(val);
        let (eo, ec) = (api.validity_is_err_on(val, false), api.validity_is_err_on(val, true));
        if e != (eo && ec) {
            return Err(format!("{:?}: is_err() = {} but is_err_on(Optimistic) = {} and is_err_on(Conservative) = {}", val, e, eo, ec));
        }
        if eo && !ec {
            return Err(format!("{:?}: an error in the optimistic mode but not in the conservative mode", val));
        }
    }
    Ok(evals)
}

fn run_constants(ctx: &Ctx) -> CheckResult {
    for va in ctx.api.variants() {
        match case_constants(ctx.api, va) {
            Ok(n) => {
                let mut ev = ctx.ev.borrow_mut();
                ev.evaluations += n;
                ev.nontrivial_enumerated += n;
            }
            Err(m) => return Err(ctx.violation("constants", m, json!({"variant": va.v().name}))),
        }
    }
    ctx.exhaustive("validity class of every length 0..=1200 and MAX-20..=MAX+20 per variant");
    Ok(())
}

pub fn replay(ctx: &Ctx, check: &str, case: &Value) -> Result<(), String> {
    let live = Cell::new(true);
    let st = ctx.stats("replay", &live);
    let va = super::codec::variant_of(ctx.api, case)?;
    match check {
        "constants" => case_constants(ctx.api, va).map(|_| ()),
        "data" => {
            let d = DataSpec::from_json(case.get("data").ok_or("no data")?).ok_or("bad data")?;
            let mut g = va.generator();
            g.update(&d.render());
            case_lattice(ctx.api, va, g.as_ref(), &st).map(|_| ())
        }
        "state" => {
            let gs: GenState = serde_json::from_value(case.get("state").cloned().ok_or("no state")?).map_err(|e| e.to_string())?;
            let g = va.gen_from_state(&gs).ok_or("no hooks")?;
            case_lattice(ctx.api, va, g.as_ref(), &st).map(|_| ())
        }
        _ => Err(format!("unknown check {}", check)),
    }
}
