//! C12 — stream and file helpers hash exactly the bytes the reader delivered.

use super::{CheckResult, Sub};
use crate::api::*;
use crate::ctx::{catch, fnv, fnv_mix, CaseStats, Ctx};
use crate::gens::{self, DataSpec, Kind};
use proptest::collection::vec;
use proptest::prelude::*;
use serde_json::{json, Value};
use std::cell::Cell;
use std::io::{self, ErrorKind, Read};

pub fn subs() -> Vec<Sub> {
    vec![Sub { name: "scripts", run: run_scripts }, Sub { name: "files", run: run_files }, Sub { name: "huge", run: run_huge }]
}

#[derive(Debug, Clone, PartialEq, Eq, serde::Serialize, serde::Deserialize)]
pub enum Ev {
    /// deliver up to k bytes (at least 1 while data remains)
    Deliver(u32),
    /// `ErrorKind::Interrupted` (transient: a correct caller retries)
    Interrupted,
    /// a hard error of the given kind index
    Hard(u8),
    /// end of file now, even if data remains
    Eof,
    /// `ErrorKind::Interrupted` for the next n calls in a row (long bursts: counters of retries)
    Burst(u32),
    /// re-entrancy: while producing this read, the reader itself hashes another (inner) stream
    /// with the same helper on the same thread, then delivers up to k bytes
    Nested(u32),
}

pub const HARD_KINDS: [ErrorKind; 6] =
    [ErrorKind::Other, ErrorKind::UnexpectedEof, ErrorKind::PermissionDenied, ErrorKind::WouldBlock, ErrorKind::TimedOut, ErrorKind::BrokenPipe];

#[derive(Debug, Clone, PartialEq, Eq, serde::Serialize, serde::Deserialize)]
pub struct Script {
    pub data: DataSpec,
    pub events: Vec<Ev>,
}

/// A contract-respecting scripted reader.
pub struct ScriptReader<'a> {
    data: &'a [u8],
    pos: usize,
    events: &'a [Ev],
    next: usize,
    ended: bool,
    pub calls_after_end: u32,
    pub reads_with_data: u32,
    pub short_reads: u32,
    pub interrupts: u32,
    pub hard: Option<(ErrorKind, String)>,
    /// builds a hard error whose payload is one of the crate's own `GeneratorError` values
    /// (`Hard(k)` with k >= 6); None: every hard error carries a text payload
    pub payload_err: Option<&'a dyn Fn(ErrorKind, u8) -> io::Error>,
    /// what `Ev::Nested` runs (None: `Nested` behaves as `Deliver`)
    pub nested: Option<&'a dyn Fn(u32) -> Result<(), String>>,
    pub nested_calls: u32,
    pub nested_failure: Option<String>,
    burst_left: u32,
    pub longest_burst: u32,
}

impl<'a> ScriptReader<'a> {
    pub fn new(data: &'a [u8], events: &'a [Ev]) -> Self {
        ScriptReader {
            data,
            pos: 0,
            events,
            next: 0,
            ended: false,
            calls_after_end: 0,
            reads_with_data: 0,
            short_reads: 0,
            interrupts: 0,
            hard: None,
            payload_err: None,
            nested: None,
            nested_calls: 0,
            nested_failure: None,
            burst_left: 0,
            longest_burst: 0,
        }
    }
    pub fn delivered(&self) -> &'a [u8] {
        &self.data[..self.pos]
    }
}

impl<'a> Read for ScriptReader<'a> {
    fn read(&mut self, buf: &mut [u8]) -> io::Result<usize> {
        if self.ended {
            self.calls_after_end += 1;
            return Ok(0);
        }
        if self.burst_left > 0 {
            self.burst_left -= 1;
            self.interrupts += 1;
            return Err(io::Error::new(ErrorKind::Interrupted, "verif: interrupted (retry me)"));
        }
        let ev = if self.next < self.events.len() { self.events[self.next].clone() } else { Ev::Deliver(u32::MAX) };
        self.next += 1;
        let ev = match ev {
            Ev::Nested(k) => {
                if let Some(f) = self.nested {
                    self.nested_calls += 1;
                    if let Err(m) = f(k) {
                        self.nested_failure.get_or_insert(m);
                    }
                }
                Ev::Deliver(k)
            }
            e => e,
        };
        match ev {
            Ev::Nested(_) => unreachable!(),
            Ev::Burst(n) => {
                self.longest_burst = self.longest_burst.max(n);
                if n == 0 {
                    return self.read(buf);
                }
                self.burst_left = n - 1;
                self.interrupts += 1;
                Err(io::Error::new(ErrorKind::Interrupted, "verif: interrupted (retry me)"))
            }
            Ev::Deliver(k) => {
                let remaining = self.data.len() - self.pos;
                if remaining == 0 || buf.is_empty() {
                    self.ended = remaining == 0;
                    return Ok(0);
                }
                let n = (k.max(1) as usize).min(buf.len()).min(remaining);
                buf[..n].copy_from_slice(&self.data[self.pos..self.pos + n]);
                self.pos += n;
                self.reads_with_data += 1;
                if n < buf.len() && n < remaining {
                    self.short_reads += 1;
                }
                Ok(n)
            }
            Ev::Interrupted => {
                self.interrupts += 1;
                Err(io::Error::new(ErrorKind::Interrupted, "verif: interrupted (retry me)"))
            }
            Ev::Hard(k) => {
                self.ended = true;
                let kind = HARD_KINDS[k as usize % HARD_KINDS.len()];
                if k >= 6 {
                    if let Some(mk) = self.payload_err {
                        // same kind, but the payload is a GeneratorError value of the library
                        let e = mk(kind, k);
                        self.hard = Some((kind, e.to_string()));
                        return Err(e);
                    }
                }
                let tag = format!("verif-hard-error-{}-at-{}", k, self.pos);
                self.hard = Some((kind, tag.clone()));
                Err(io::Error::new(kind, tag))
            }
            Ev::Eof => {
                self.ended = true;
                Ok(0)
            }
        }
    }
}

fn same(a: &Result<H, GErr>, b: &Result<H, GErr>) -> bool {
    match (a, b) {
        (Ok(x), Ok(y)) => x.equals(y.as_ref()),
        (Err(x), Err(y)) => x == y,
        _ => false,
    }
}

fn show(r: &Result<H, GErr>) -> String {
    match r {
        Ok(h) => h.display(),
        Err(e) => format!("GeneratorError({:?})", e),
    }
}

pub fn case_script(api: &dyn GlobalApi, va: &dyn VariantApi, s: &Script, st: &CaseStats) -> Result<(), String> {
    let v = va.v();
    let data = s.data.render();
    // twice: variant-specific helper and (for Normal) the default-type helper
    let passes: &[bool] = if v.name == "Normal" { &[false, true] } else { &[false] };
    for &use_global in passes {
        let what = if use_global { "hash_stream" } else { "hash_stream_for" };
        // the inner stream of `Ev::Nested`: hashed with the same helper from inside read()
        let nested = |k: u32| -> Result<(), String> {
            let len = if k >= (1 << 20) - 3 { (1usize << 20) + 77 } else { 60 + k as usize % 700 };
            let inner = DataSpec { kind: Kind::Mixed, len, seed: k as u64 ^ 0x12E57ED, explicit: None }.render();
            let evs = [Ev::Deliver(7), Ev::Interrupted, Ev::Deliver(u32::MAX)];
            let mut ir = ScriptReader::new(&inner, &evs);
            let r = if use_global { api.hash_stream_normal(&mut ir) } else { va.hash_stream(&mut ir) }.ok_or("stream helpers not compiled")?;
            let got = match r {
                Ok(h) => Ok(h),
                Err(StreamErr::Gen(g)) => Err(g),
                Err(StreamErr::Io(e)) => return Err(format!("{}: inner {} (called from inside read()) returned the I/O error {:?}", v.name, what, e.kind())),
            };
            let want = va.hash_buf(&inner).ok_or("hash_buf not compiled")?;
            if !same(&got, &want) {
                return Err(format!("{}: inner {} over {} bytes (called from inside read()) = {} but hash_buf = {}", v.name, what, inner.len(), show(&got), show(&want)));
            }
            Ok(())
        };
        let payload = |kind: ErrorKind, k: u8| api.io_error_with_generator_payload(kind, k);
        let mut rd = ScriptReader::new(&data, &s.events);
        rd.nested = Some(&nested);
        rd.payload_err = Some(&payload);
        let r = catch(|| if use_global { api.hash_stream_normal(&mut rd) } else { va.hash_stream(&mut rd) })
            .map_err(|p| format!("{}: {} panicked: {}", v.name, what, p))?
            .ok_or("stream helpers not compiled")?;
        st.eval();
        if let Some(m) = rd.nested_failure.take() {
            return Err(m);
        }
        if rd.nested_calls > 0 {
            st.class("script: reader hashes another stream inside read()");
        }
        if rd.longest_burst >= 65_536 {
            st.class("script: >= 65536 interruptions in a row");
        } else if rd.longest_burst >= 256 {
            st.class("script: >= 256 interruptions in a row");
        }
        if rd.calls_after_end > 0 {
            // not demanded by the property (the result is judged below): recorded only
            st.class("observation: read() called again after end of file / hard error");
        }
        match (&rd.hard, r) {
            (Some((kind, tag)), Err(StreamErr::Io(e))) => {
                if e.kind() != *kind || !e.to_string().contains(tag.as_str()) {
                    return Err(format!("{}: {} returned I/O error {:?} but the reader reported {:?} ({})", v.name, what, e, kind, tag));
                }
            }
            (Some((kind, _)), other) => {
                return Err(format!("{}: the reader reported the hard error {:?} after {} bytes but {} returned {}", v.name, kind, rd.delivered().len(), what, match other {
                    Ok(h) => format!("the hash {}", h.display()),
                    Err(StreamErr::Gen(g)) => format!("GeneratorError({:?})", g),
                    Err(StreamErr::Io(e)) => format!("{:?}", e),
                }));
            }
            (None, r) => {
                // "all delivered bytes": the helper must drive the reader to its end of file
                if !rd.ended && !matches!(r, Err(StreamErr::Io(_))) {
                    return Err(format!(
                        "{}: {} returned a result after {} read(s) ({} bytes) although the reader never reported end of file (it had {} more bytes to deliver)",
                        v.name,
                        what,
                        rd.reads_with_data,
                        rd.delivered().len(),
                        data.len() - rd.delivered().len()
                    ));
                }
                let want = va.hash_buf(rd.delivered()).ok_or("hash_buf not compiled")?;
                let got = match r {
                    Ok(h) => Ok(h),
                    Err(StreamErr::Gen(g)) => Err(g),
                    Err(StreamErr::Io(e)) => {
                        return Err(format!(
                            "{}: the reader delivered {} bytes in {} read(s) with {} transient interruption(s) and no other error, but {} returned the I/O error {:?} instead of {}",
                            v.name,
                            rd.delivered().len(),
                            rd.reads_with_data,
                            rd.interrupts,
                            what,
                            e.kind(),
                            show(&want)
                        ))
                    }
                };
                if !same(&got, &want) {
                    return Err(format!("{}: {} over {} delivered bytes ({} reads, {} short) = {} but hash_buf of the same bytes = {}", v.name, what, rd.delivered().len(), rd.reads_with_data, rd.short_reads, show(&got), show(&want)));
                }
            }
        }
        if !use_global {
            if rd.hard.is_some() {
                st.class("script: hard error");
            } else if rd.interrupts > 0 {
                st.class("script: with interruptions");
            } else {
                st.class("script: clean");
            }
            if rd.delivered().len() > 1 << 20 {
                st.class("delivered > 1 MiB");
            }
            if rd.delivered().len() < data.len() && rd.hard.is_none() {
                st.class("early EOF");
            }
            if rd.reads_with_data >= 2 && (rd.interrupts > 0 || rd.short_reads > 0) {
                let mut d = fnv_mix(fnv(v.name.as_bytes()), fnv(&data));
                d = fnv_mix(d, s.events.len() as u64);
                d = fnv_mix(d, rd.reads_with_data as u64);
                st.nontrivial(d);
            }
        }
    }
    Ok(())
}

fn script_strategy(v: vmodel::Variant, big_weight: u32) -> impl Strategy<Value = Script> {
    let small = gens::data_strategy(v, 4096);
    let big = ((1usize << 20) - 2..(3usize << 20), any::<u64>()).prop_map(|(len, seed)| DataSpec { kind: Kind::Periodic(61, 9), len, seed, explicit: None });
    let around = (-2i64..=2, any::<u64>()).prop_map(|(d, seed)| DataSpec { kind: Kind::Mixed, len: ((1i64 << 20) + d) as usize, seed, explicit: None });
    let data = prop_oneof![20 => small, big_weight => big, big_weight => around];
    let ev = prop_oneof![
        6 => prop_oneof![1u32..=9, 1u32..=5000, Just(1u32 << 20), (1u32 << 20) - 3..=(1u32 << 20)].prop_map(Ev::Deliver),
        3 => Just(Ev::Interrupted),
        1 => (0u8..12).prop_map(Ev::Hard),
        1 => Just(Ev::Eof),
        1 => prop_oneof![4 => 1u32..=5000, 1 => Just(1u32 << 20)].prop_map(Ev::Nested),
        1 => prop_oneof![3 => 2u32..300, 1 => Just(255u32), 1 => Just(256), 1 => Just(257), 1 => Just(65_535), 1 => Just(65_536), 1 => Just(65_537), 1 => Just(70_000), 1 => Just(131_073)].prop_map(Ev::Burst),
    ];
    (data, vec(ev, 0..14)).prop_map(|(data, events)| Script { data, events })
}

fn run_scripts(ctx: &Ctx) -> CheckResult {
    let caps = ctx.api.caps();
    if !(caps.easy && caps.std) {
        ctx.skipped("scripts: stream helpers not compiled");
        return Ok(());
    }
    let cases = ctx.tier.pick(1200u32, 12000);
    for va in ctx.api.variants() {
        let v = va.v();
        ctx.pt_run(
            "script",
            &format!("scripts/{}", v.name),
            cases,
            script_strategy(v, 1),
            |s: &Script| json!({"variant": v.name, "script": s, "data": s.data.to_json()}),
            |s: &Script, st: &CaseStats| {
                st.sample(|| json!({"check": "script", "variant": v.name, "data_len": s.data.render().len(), "events": s.events}));
                case_script(ctx.api, va, s, st)
            },
        )?;
    }
    Ok(())
}

/// Streams and files beyond the 4,224,281,216-byte mark (one pass each, ~40 s, concurrent): a
/// hard error reported after the mark is still returned as an I/O error; a stream / a sparse
/// file of MAX + 1 bytes is too large, of exactly MAX bytes it is not (shared with C11).
fn run_huge(ctx: &Ctx) -> CheckResult {
    let caps = ctx.api.caps();
    if !(caps.easy && caps.std) {
        ctx.skipped("huge: stream helpers not compiled");
        return Ok(());
    }
    let quick = ctx.tier == crate::ctx::Tier::Quick;
    if quick && ctx.config != "default" {
        ctx.skipped("huge: quick tier runs it in the default configuration only");
        return Ok(());
    }
    let vs = ctx.api.variants();
    let mut jobs: Vec<(usize, u8)> = Vec::new();
    if quick {
        jobs.push(((ctx.seed % vs.len() as u64) as usize, 0));
        jobs.push((((ctx.seed + 2) % vs.len() as u64) as usize, 1));
    } else {
        for i in 0..vs.len() {
            jobs.extend([(i, 0u8), (i, 1), (i, 2), (i, 3)]);
        }
    }
    let res = super::common::par_map(ctx.threads, &jobs, |&(i, k)| match k {
        0 => super::c11::case_hugestream_error(vs[i]),
        1 => super::c11::case_hugefile(vs[i], 1),
        2 => super::c11::case_hugefile(vs[i], 0),
        _ => super::c11::case_hugestream(vs[i], 1),
    });
    for (&(i, k), r) in jobs.iter().zip(res) {
        ctx.ev.borrow_mut().evaluations += 1;
        ctx.ev.borrow_mut().nontrivial_enumerated += 1;
        if let Err(m) = r {
            return Err(ctx.violation("huge", m, json!({"variant": vs[i].v().name, "kind": k})));
        }
    }
    ctx.subcheck("huge", jobs.len() as u64);
    ctx.ev.borrow_mut().sample(json!({"check": "huge", "jobs": jobs.len(), "kinds": "0 stream of MAX+4096 bytes then a hard error; 1 sparse file of MAX+1; 2 sparse file of MAX; 3 stream of MAX+1 with a read ending at MAX"}));
    Ok(())
}

pub fn case_file(api: &dyn GlobalApi, va: &dyn VariantApi, size: usize, seed: u64, st: &CaseStats) -> Result<(), String> {
    let v = va.v();
    let dir = std::env::var("VERIF_SCRATCH").unwrap_or_else(|_| "/verif/build/tmp".into());
    std::fs::create_dir_all(&dir).map_err(|e| format!("scratch dir: {}", e))?;
    let path = std::path::Path::new(&dir).join(format!("c12-{}-{}-{}-{}.bin", std::process::id(), v.name, size, seed));
    let data = DataSpec { kind: Kind::Mixed, len: size, seed, explicit: None }.render();
    std::fs::write(&path, &data).map_err(|e| format!("write scratch file: {}", e))?;
    let r = (|| {
        let contents = std::fs::read(&path).map_err(|e| e.to_string())?;
        let want = va.hash_buf(&contents).ok_or("hash_buf not compiled")?;
        let got = va.hash_file(&path).ok_or("hash_file not compiled")?;
        st.eval();
        let got = match got {
            Ok(h) => Ok(h),
            Err(StreamErr::Gen(g)) => Err(g),
            Err(StreamErr::Io(e)) => return Err(format!("{}: hash_file_for on a readable {}-byte file returned {:?}", v.name, size, e)),
        };
        if !same(&got, &want) {
            return Err(format!("{}: hash_file_for({} bytes) = {} but hash_buf(read(file)) = {}", v.name, size, show(&got), show(&want)));
        }
        if v.name == "Normal" {
            let g2 = match api.hash_file_normal(&path).unwrap() {
                Ok(h) => Ok(h),
                Err(StreamErr::Gen(g)) => Err(g),
                Err(StreamErr::Io(e)) => return Err(format!("hash_file returned {:?}", e)),
            };
            if !same(&g2, &want) {
                return Err(format!("hash_file({} bytes) = {} but hash_buf = {}", size, show(&g2), show(&want)));
            }
        }
        Ok(())
    })();
    let _ = std::fs::remove_file(&path);
    r?;
    st.nontrivial(fnv_mix(fnv(v.name.as_bytes()), fnv_mix(size as u64, seed)));
    st.class(if size > 1 << 20 { "file > 1 MiB" } else if size == 1 << 20 { "file = 1 MiB" } else { "file < 1 MiB" });
    Ok(())
}

fn run_files(ctx: &Ctx) -> CheckResult {
    let caps = ctx.api.caps();
    if !(caps.easy && caps.std) {
        ctx.skipped("files: file helpers not compiled");
        return Ok(());
    }
    let live = Cell::new(true);
    let st = ctx.stats("files", &live);
    let mib = 1usize << 20;
    let mut sizes = vec![0, 1, 9, 10, 49, 50, 127, 128, 4095, mib - 1, mib, mib + 1, 2 * mib + 7];
    let extra = ctx.sample_values("filesizes", ctx.tier.pick(3, 30), &(0usize..3 * mib));
    sizes.extend(extra);
    let vs = ctx.api.variants();
    for (i, &size) in sizes.iter().enumerate() {
        for (k, va) in vs.iter().enumerate() {
            if size > 4096 && (i + k) % 5 != 0 && ctx.tier == crate::ctx::Tier::Quick {
                continue;
            }
            if let Err(m) = case_file(ctx.api, *va, size, ctx.seed ^ i as u64, &st) {
                return Err(ctx.violation("file", m, json!({"variant": va.v().name, "size": size, "seed": ctx.seed ^ i as u64})));
            }
        }
    }
    // a missing path and a directory are I/O errors
    let dir = std::env::var("VERIF_SCRATCH").unwrap_or_else(|_| "/verif/build/tmp".into());
    let missing = std::path::Path::new(&dir).join(format!("c12-missing-{}", std::process::id()));
    for va in &vs {
        st.eval();
        match va.hash_file(&missing).unwrap() {
            Err(StreamErr::Io(e)) if e.kind() == ErrorKind::NotFound => {}
            other => return Err(ctx.violation("missing", format!("{}: hash_file_for on a missing path returned {:?}", va.v().name, other.map(|h| h.display())), json!({"variant": va.v().name}))),
        }
        match va.hash_file(std::path::Path::new(&dir)).unwrap() {
            Err(StreamErr::Io(_)) => {}
            other => return Err(ctx.violation("missing", format!("{}: hash_file_for on a directory returned {:?}", va.v().name, other.map(|h| h.display())), json!({"variant": va.v().name}))),
        }
    }
    // files that are not regular files: a named pipe (reports length 0, delivers data in
    // several reads) and two procfs files with stable content (report length 0)
    for va in &vs {
        if let Err(m) = case_special_files(*va, ctx.seed, &st) {
            return Err(ctx.violation("special", m, json!({"variant": va.v().name, "seed": ctx.seed})));
        }
    }
    st.sample(|| json!({"check": "files", "sizes": sizes, "special": ["named pipe", "/proc/version", "/proc/filesystems", "/dev/null"]}));
    Ok(())
}

/// hash_file on a named pipe and on procfs files equals hash_buf of the same content.
pub fn case_special_files(va: &dyn VariantApi, seed: u64, st: &CaseStats) -> Result<(), String> {
    let v = va.v();
    let dir = std::env::var("VERIF_SCRATCH").unwrap_or_else(|_| "/verif/build/tmp".into());
    // procfs / device files
    for p in ["/proc/version", "/proc/filesystems", "/dev/null"] {
        let path = std::path::Path::new(p);
        let Ok(content) = std::fs::read(path) else { continue };
        // stable content is a precondition of the comparison
        if std::fs::read(path).ok().as_ref() != Some(&content) {
            continue;
        }
        let want = va.hash_buf(&content).ok_or("hash_buf not compiled")?;
        st.eval();
        let got = match va.hash_file(path).ok_or("hash_file not compiled")? {
            Ok(h) => Ok(h),
            Err(StreamErr::Gen(g)) => Err(g),
            Err(StreamErr::Io(e)) => return Err(format!("{}: hash_file_for({}) returned the I/O error {:?}", v.name, p, e)),
        };
        if !same(&got, &want) {
            return Err(format!("{}: hash_file_for({}) = {} but hash_buf of its {} bytes = {}", v.name, p, show(&got), content.len(), show(&want)));
        }
        st.class("special file: procfs / device");
    }
    // a named pipe fed by a writer thread
    for (k, size) in [300usize, (1 << 20) + 77].into_iter().enumerate() {
        let fifo = std::path::Path::new(&dir).join(format!("c12-fifo-{}-{}-{}", std::process::id(), v.name, k));
        let _ = std::fs::remove_file(&fifo);
        let made = std::process::Command::new("mkfifo").arg(&fifo).status().map(|s| s.success()).unwrap_or(false);
        if !made {
            st.class("special file: mkfifo unavailable (skipped)");
            return Ok(());
        }
        let data = DataSpec { kind: Kind::Mixed, len: size, seed: seed ^ k as u64, explicit: None }.render();
        let want = va.hash_buf(&data).ok_or("hash_buf not compiled")?;
        let (d2, f2) = (data.clone(), fifo.clone());
        let writer = std::thread::spawn(move || {
            use std::io::Write;
            if let Ok(mut f) = std::fs::OpenOptions::new().write(true).open(&f2) {
                for chunk in d2.chunks(4099) {
                    if f.write_all(chunk).is_err() {
                        break;
                    }
                }
            }
        });
        st.eval();
        let r = va.hash_file(&fifo).ok_or("hash_file not compiled")?;
        // if the helper returned without reading everything, unblock the writer: drain the pipe
        // through a NON-BLOCKING read end (a blocking open would wait forever for a writer that
        // has just finished) until the writer thread is done
        if !writer.is_finished() {
            use std::os::unix::fs::OpenOptionsExt;
            const O_NONBLOCK: i32 = 0o4000;
            if let Ok(mut f) = std::fs::OpenOptions::new().read(true).custom_flags(O_NONBLOCK).open(&fifo) {
                let mut sink = vec![0u8; 1 << 16];
                let t0 = std::time::Instant::now();
                while !writer.is_finished() && t0.elapsed().as_secs() < 60 {
                    match std::io::Read::read(&mut f, &mut sink) {
                        Ok(0) | Err(_) => std::thread::sleep(std::time::Duration::from_millis(1)),
                        Ok(_) => {}
                    }
                }
            }
        }
        let _ = writer.join();
        let _ = std::fs::remove_file(&fifo);
        let got = match r {
            Ok(h) => Ok(h),
            Err(StreamErr::Gen(g)) => Err(g),
            Err(StreamErr::Io(e)) => return Err(format!("{}: hash_file_for(named pipe) returned the I/O error {:?}", v.name, e)),
        };
        if !same(&got, &want) {
            return Err(format!("{}: hash_file_for on a named pipe delivering {} bytes = {} but hash_buf of those bytes = {}", v.name, size, show(&got), show(&want)));
        }
        st.class("special file: named pipe");
        st.nontrivial(fnv_mix(fnv(v.name.as_bytes()), size as u64 ^ 0xF1F0));
    }
    Ok(())
}

pub fn replay(ctx: &Ctx, check: &str, case: &Value) -> Result<(), String> {
    if check == "huge" {
        let va = super::codec::variant_of(ctx.api, case)?;
        return match case.get("kind").and_then(|x| x.as_u64()).unwrap_or(0) {
            0 => super::c11::case_hugestream_error(va),
            1 => super::c11::case_hugefile(va, 1),
            2 => super::c11::case_hugefile(va, 0),
            _ => super::c11::case_hugestream(va, 1),
        };
    }
    let live = Cell::new(true);
    let st = ctx.stats("replay", &live);
    let va = super::codec::variant_of(ctx.api, case)?;
    match check {
        "script" => {
            let s: Script = serde_json::from_value(case.get("script").cloned().ok_or("no script")?).map_err(|e| e.to_string())?;
            case_script(ctx.api, va, &s, &st)
        }
        "file" => {
            let g = |k: &str| case.get(k).and_then(|x| x.as_u64()).ok_or_else(|| k.to_string());
            case_file(ctx.api, va, g("size")? as usize, g("seed")?, &st)
        }
        "missing" => Ok(()),
        "special" => case_special_files(va, case.get("seed").and_then(|x| x.as_u64()).unwrap_or(0), &st),
        _ => Err(format!("unknown check {}", check)),
    }
}
