//! C15 — the strict parser rejects exactly impossible hashes; generated hashes always pass.

use super::codec::*;
use super::{CheckResult, Sub};
use crate::ctx::{fnv, fnv_mix, hex, CaseStats, Ctx};
use crate::gens::{self, DataSpec, TextSpec};
use proptest::prelude::*;
use serde_json::{json, Value};
use std::cell::Cell;
use vmodel::text;

pub fn subs() -> Vec<Sub> {
    vec![
        Sub { name: "generated", run: run_generated },
        Sub { name: "grid", run: run_grid },
        Sub { name: "text", run: run_text },
        Sub { name: "pairsweep", run: run_pairsweep },
    ]
}

/// Every configuration: generated hashes satisfy the strict conditions.
fn run_generated(ctx: &Ctx) -> CheckResult {
    let strict = ctx.api.caps().strict;
    for va in ctx.api.variants() {
        let v = va.v();
        // the 48-bucket variant is where the checksum condition bites
        let cases = ctx.tier.pick(if v.buckets == 48 { 4000u32 } else { 800 }, if v.buckets == 48 { 80_000 } else { 10_000 });
        ctx.pt_run(
            "generated",
            &format!("generated/{}", v.name),
            cases,
            gens::data_strategy(v, 6000),
            |d: &DataSpec| json!({"variant": v.name, "data": d.to_json()}),
            |d: &DataSpec, st: &CaseStats| {
                let data = d.render();
                st.sample(|| json!({"check": "generated", "variant": v.name, "len": data.len()}));
                case_generated_valid(va, &data, strict, st)
            },
        )?;
    }
    Ok(())
}

/// One grid point: checksum byte c, length code l on a valid background, as text and as bytes.
pub fn case_grid(va: &dyn crate::api::VariantApi, bg: &[u8], c: u8, l: u8, st: &CaseStats) -> Result<(), String> {
    let v = va.v();
    let mut b = bg.to_vec();
    b[0] = c;
    b[v.ck] = l;
    let errs = text::strict_errors(v, &b);
    for with in [false, true] {
        let s = text::encode(v, &b, with);
        case_parse(va, &s, None, true, st)?;
    }
    case_slice_len(va, &b, true, st)?;
    // array entry point
    st.eval();
    match va.try_from_array(&b) {
        Ok(h) => {
            if !errs.is_empty() {
                return Err(format!("{}: strict TryFrom<&[u8; N]> accepted {} although {:?} applies", v.name, hex(&b), errs));
            }
            if store_vec(h.as_ref(), v.size())? != b {
                return Err(format!("{}: strict array round trip changed {}", v.name, hex(&b)));
            }
        }
        Err(e) => {
            if !e.to_model().map(|m| errs.contains(&m)).unwrap_or(false) {
                return Err(format!("{}: strict TryFrom<&[u8; N]> rejected {} with {:?}; applicable: {:?}", v.name, hex(&b), e, errs));
            }
        }
    }
    // when serde is compiled in, the compact form delivers the same byte array through a visitor:
    // it is still "a byte array" and the two gates apply to it (every bytes-like visitor entry)
    for (k, ev) in [
        crate::mockserde::DeEvent::Bytes(b.clone()),
        crate::mockserde::DeEvent::BorrowedBytes(b.clone()),
        crate::mockserde::DeEvent::ByteBuf(b.clone()),
    ]
    .into_iter()
    .enumerate()
    {
        if let Some(r) = va.mock_de(&crate::mockserde::DeScript { human: false, event: ev }) {
            st.eval();
            match r {
                Ok(h) => {
                    if !errs.is_empty() {
                        return Err(format!("{}: strict build: the compact serde form (bytes entry #{}) accepted {} although {:?} applies", v.name, k, hex(&b), errs));
                    }
                    if store_vec(h.as_ref(), v.size())? != b {
                        return Err(format!("{}: strict build: compact serde form changed {}", v.name, hex(&b)));
                    }
                }
                Err(e) => {
                    if errs.is_empty() {
                        return Err(format!("{}: strict build: the compact serde form (bytes entry #{}) rejected the acceptable {}: {}", v.name, k, hex(&b), e));
                    }
                }
            }
        }
    }
    st.class(match errs.len() {
        0 => "grid: valid",
        1 => "grid: one gate fails",
        _ => "grid: both gates fail",
    });
    Ok(())
}

fn run_grid(ctx: &Ctx) -> CheckResult {
    if !ctx.api.caps().strict {
        ctx.skipped("grid: not a strict-parser build");
        return Ok(());
    }
    let live = Cell::new(true);
    let st = ctx.stats("grid", &live);
    for va in ctx.api.variants() {
        let v = va.v();
        let bgs = ctx.sample_values(&format!("gridbg/{}", v.name), ctx.tier.pick(1, 3), &proptest::collection::vec(any::<u8>(), v.size()));
        for bg in bgs {
            for c in 0..=255u8 {
                for l in 0..=255u8 {
                    if let Err(m) = case_grid(va, &bg, c, l, &st) {
                        return Err(ctx.violation("grid", m, json!({"variant": v.name, "bytes": hex(&bg), "c": c, "l": l})));
                    }
                }
            }
            // the gates next to the Q-ratio byte (a header read as a wider integer couples them):
            // all 256 length codes x all 256 Q bytes, and all 256 checksum bytes x all 256 Q bytes
            for q in 0..=255u8 {
                let mut bq = bg.clone();
                bq[v.ck + 1] = q;
                for x in 0..=255u8 {
                    for (c, l) in [(bg[0] % 49, x), (x, bg[v.ck] % 170)] {
                        if let Err(m) = case_grid(va, &bq, c, l, &st) {
                            return Err(ctx.violation("grid", m, json!({"variant": v.name, "bytes": hex(&bq), "c": c, "l": l})));
                        }
                    }
                }
            }
            ctx.ev.borrow_mut().nontrivial_enumerated += 65536 * 3;
            st.sample(|| json!({"check": "grid", "variant": v.name, "background": hex(&bg), "grid": "256 checksum bytes x 256 length codes"}));
        }
    }
    ctx.exhaustive("all 256 checksum bytes x all 256 length codes, all 256 length codes x all 256 Q bytes, all 256 checksum bytes x all 256 Q bytes, as text (with/without prefix), slice, array and (serde builds) compact byte entries");
    Ok(())
}

/// Strict builds: text biased to the two gates.
fn run_text(ctx: &Ctx) -> CheckResult {
    if !ctx.api.caps().strict {
        ctx.skipped("text: not a strict-parser build");
        return Ok(());
    }
    let cases = ctx.tier.pick(10_000u32, 150_000);
    for va in ctx.api.variants() {
        let v = va.v();
        let gate = prop_oneof![Just(0x30u8), Just(0x31), Just(0xA9), Just(0xAA), Just(0x00), Just(0xFF), any::<u8>()];
        ctx.pt_run(
            "parse",
            &format!("text/{}", v.name),
            cases,
            (gens::text_strategy(v), gate.clone(), gate, 0usize..3),
            |(t, c, l, m): &(TextSpec, u8, u8, usize)| {
                let mut t = t.clone();
                if t.raw.is_none() {
                    t.base[0] = *c;
                    t.base[v.ck] = *l;
                }
                json!({"variant": v.name, "text": hex(&t.render(v)), "prefix": prefix_json(MODES[*m])})
            },
            |(t, c, l, m): &(TextSpec, u8, u8, usize), st: &CaseStats| {
                let mut t = t.clone();
                if t.raw.is_none() {
                    t.base[0] = *c;
                    t.base[v.ck] = *l;
                }
                let s = t.render(v);
                st.sample(|| json!({"check": "text", "variant": v.name, "text": String::from_utf8_lossy(&s)}));
                case_parse(va, &s, MODES[*m], true, st)?;
                let mode = mode_of(MODES[*m]);
                if text::applicable_errors(v, &s, mode, false).is_empty() != text::applicable_errors(v, &s, mode, true).is_empty() {
                    st.nontrivial(fnv_mix(fnv(v.name.as_bytes()), fnv(&s)));
                }
                Ok(())
            },
        )?;
    }
    Ok(())
}

/// Strict builds: the complete 256x256 domain of every header digit pair (the two gates sit
/// right behind the pair decoders) through the text parser, judged by the strict model.
fn run_pairsweep(ctx: &Ctx) -> CheckResult {
    if !ctx.api.caps().strict {
        ctx.skipped("pairsweep: not a strict-parser build");
        return Ok(());
    }
    super::c05::run_pairsweep(ctx)
}

pub fn replay(ctx: &Ctx, check: &str, case: &Value) -> Result<(), String> {
    let live = Cell::new(true);
    let st = ctx.stats("replay", &live);
    let va = variant_of(ctx.api, case)?;
    match check {
        "generated" => {
            let d = DataSpec::from_json(case.get("data").ok_or("no data")?).ok_or("bad data")?;
            case_generated_valid(va, &d.render(), ctx.api.caps().strict, &st)
        }
        "grid" => {
            let g = |k: &str| case.get(k).and_then(|x| x.as_u64()).ok_or_else(|| k.to_string());
            case_grid(va, &bytes_of(case, "bytes")?, g("c")? as u8, g("l")? as u8, &st)
        }
        "parse" | "text" => case_parse(va, &bytes_of(case, "text")?, prefix_of(case), true, &st),
        _ => Err(format!("unknown check {}", check)),
    }
}
