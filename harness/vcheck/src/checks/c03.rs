//! C03 — the hash is independent of how the input is chunked, finalized or cloned.
//! Metamorphic oracle: a fresh generator fed the same bytes in one update.

use super::common::*;
use super::{CheckResult, Sub};
use crate::api::*;
use crate::ctx::{catch, fnv, fnv_mix, CaseStats, Ctx};
use crate::gens::{self, DataSpec};
use proptest::collection::vec;
use proptest::prelude::*;
use serde_json::{json, Value};
use std::cell::Cell;
use std::collections::HashMap;

pub fn subs() -> Vec<Sub> {
    vec![Sub { name: "history", run: run_history }, Sub { name: "twocut", run: run_twocut }, Sub { name: "hugeslice", run: run_hugeslice }]
}

#[derive(Debug, Clone, PartialEq, Eq, serde::Serialize, serde::Deserialize)]
pub enum Ev {
    /// finalize every live generator with this option index (and keep going)
    Finalize(u8),
    /// clone the main generator; the clone continues with its own piece plan
    Fork,
}

#[derive(Debug, Clone, PartialEq, Eq, serde::Serialize, serde::Deserialize)]
pub struct History {
    pub data: DataSpec,
    /// piece lengths of the main generator (the remainder goes into a final piece)
    pub pieces: Vec<usize>,
    /// events applied before the main generator's piece with this index
    pub events: Vec<(u8, Ev)>,
    /// piece lengths of a forked generator (each fork takes the next plan)
    pub fork_pieces: Vec<Vec<usize>>,
}

fn piece_len() -> impl Strategy<Value = usize> {
    // incl. exact block sizes (and block size +- the 4-byte tail) an implementation may special-case
    let blocks = (proptest::sample::select(vec![16usize, 32, 64, 128, 256, 512, 1024, 2048]), proptest::sample::select(vec![0i64, 0, 4, -4, 1, -1]))
        .prop_map(|(p, d)| (p as i64 + d) as usize);
    prop_oneof![5 => 0usize..=4, 2 => 5usize..=9, 2 => 10usize..=200, 1 => 200usize..=3000, 1 => blocks]
}

pub fn history_strategy(v: vmodel::Variant) -> impl Strategy<Value = History> {
    let data = prop_oneof![
        2 => vec(any::<u8>(), 0..=12).prop_map(DataSpec::explicit),
        5 => gens::data_strategy(v, 6000),
    ];
    let ev = prop_oneof![2 => (0u8..32).prop_map(Ev::Finalize), 1 => Just(Ev::Fork)];
    (data, vec(piece_len(), 0..40), vec((0u8..40, ev), 0..5), vec(vec(piece_len(), 0..30), 2))
        .prop_map(|(data, pieces, events, fork_pieces)| History { data, pieces, events, fork_pieces })
}

struct Live {
    g: G,
    fed: usize,
    plan: Vec<usize>,
    next: usize,
}

type Obs = (Option<u32>, Vec<Result<Vec<u8>, GErr>>);

fn observe(va: &dyn VariantApi, g: &dyn GenObj) -> Result<Obs, String> {
    let n = va.v().size();
    let mut r = Vec::with_capacity(32);
    for oi in 0..32 {
        r.push(match g.finalize(Opts::from_index(oi)) {
            Ok(h) => Ok(super::codec::store_vec(h.as_ref(), n)?),
            Err(e) => Err(e),
        });
    }
    Ok((g.processed_len(), r))
}

fn check_equal(va: &dyn VariantApi, what: &str, g: &dyn GenObj, fed: usize, data: &[u8], cache: &mut HashMap<usize, Obs>, st: &CaseStats) -> Result<(), String> {
    let v = va.v();
    if !cache.contains_key(&fed) {
        let mut fresh = va.generator();
        fresh.update(&data[..fed]);
        cache.insert(fed, observe(va, fresh.as_ref())?);
    }
    let want = &cache[&fed];
    let got = observe(va, g)?;
    st.evals(33);
    if got.0 != Some(fed as u32) {
        return Err(format!("{}: {}: processed_len() = {:?} after {} bytes", v.name, what, got.0, fed));
    }
    if got.0 != want.0 {
        return Err(format!("{}: {}: processed_len() {:?} != one-shot {:?}", v.name, what, got.0, want.0));
    }
    for oi in 0..32 {
        if got.1[oi] != want.1[oi] {
            let sh = |r: &Result<Vec<u8>, GErr>| match r {
                Ok(b) => crate::ctx::hex(b),
                Err(e) => format!("{:?}", e),
            };
            return Err(format!(
                "{}: {}: after {} bytes finalize_with_options({}) = {} but a fresh generator fed the same bytes in one update gives {}",
                v.name,
                what,
                fed,
                opt_name(oi),
                sh(&got.1[oi]),
                sh(&want.1[oi])
            ));
        }
    }
    Ok(())
}

pub fn case_history(va: &dyn VariantApi, h: &History, st: &CaseStats) -> Result<(), String> {
    let v = va.v();
    let data = h.data.render();
    let total = data.len();
    let mut cache: HashMap<usize, Obs> = HashMap::new();
    let mut live = vec![Live { g: va.generator(), fed: 0, plan: h.pieces.clone(), next: 0 }];
    let mut forks_used = 0;
    let (mut nonempty, mut partial_after_full, mut mid_events) = (0usize, false, false);
    let mut step = 0usize;
    loop {
        // events scheduled before this piece index of the main generator
        for (at, ev) in &h.events {
            if *at as usize == step {
                match ev {
                    Ev::Finalize(o) => {
                        for (li, l) in live.iter().enumerate() {
                            // the finalize itself (result checked against the oracle below)
                            let _ = l.g.finalize(Opts::from_index(*o as usize));
                            check_equal(va, &format!("generator #{} after an interleaved finalize", li), l.g.as_ref(), l.fed, &data, &mut cache, st)?;
                        }
                        if live[0].fed > 0 && live[0].fed < total {
                            mid_events = true;
                        }
                        st.class("event: interleaved finalize");
                    }
                    Ev::Fork => {
                        if forks_used < h.fork_pieces.len() {
                            // every other fork goes through `Clone::clone_from` into a generator
                            // that is in a different state (0..=5 or 300 bytes fed) instead of `clone`
                            let fed = live[0].fed;
                            let sel = forks_used + fed + data.len();
                            let c = if sel % 4 == 3 && live[0].g.state().map(|s| s.tail_len == 4).unwrap_or(false) {
                                // clone_from into a generator that agrees with the source in all
                                // but ONE component (hook): an "already equal, nothing to do"
                                // shortcut keyed on a partial comparison leaves that one stale
                                let mut dst = live[0].g.state().unwrap();
                                match (sel / 4) % 4 {
                                    0 => {
                                        let k = (sel / 16) % v.buckets;
                                        dst.buckets[k] = dst.buckets[k].wrapping_add(1 + (sel as u32 % 7));
                                    }
                                    1 => dst.checksum[0] ^= 0x5A,
                                    2 => dst.tail[(sel / 16) % 4] ^= 0x81,
                                    _ => dst.len = dst.len.wrapping_add(1),
                                }
                                st.class("event: fork by clone_from into a nearly equal generator");
                                live[0].g.boxed_clone_from_state(&dst).unwrap_or_else(|| live[0].g.boxed_clone())
                            } else if sel % 2 == 1 {
                                let pre = [0usize, 1, 2, 3, 4, 5, 300][(fed + 3 * forks_used + data.len()) % 7];
                                st.class("event: fork by clone_from");
                                live[0].g.boxed_clone_from(&vec![0xA5u8; pre])
                            } else {
                                live[0].g.boxed_clone()
                            };
                            live.push(Live { g: c, fed, plan: h.fork_pieces[forks_used].clone(), next: 0 });
                            forks_used += 1;
                            if fed > 0 && fed < total {
                                mid_events = true;
                            }
                            st.class("event: fork");
                        }
                    }
                }
            }
        }
        // every live generator feeds its next piece
        let mut progressed = false;
        for (li, l) in live.iter_mut().enumerate() {
            if l.fed >= total && l.next >= l.plan.len() {
                continue;
            }
            let want = if l.next < l.plan.len() { l.plan[l.next] } else { total - l.fed };
            let n = want.min(total - l.fed);
            l.next += 1;
            let piece = &data[l.fed..l.fed + n];
            // classify the tail path this piece takes
            if l.fed < 4 {
                st.class("tail path: fill prologue");
            } else if n == 0 {
                st.class("tail path: empty piece");
            } else if n < 4 {
                st.class("tail path: partial rewrite");
                partial_after_full = true;
            } else {
                st.class("tail path: full rewrite");
            }
            if n > 0 {
                nonempty += 1;
            }
            l.g.update(piece);
            l.fed += n;
            progressed = true;
            check_equal(va, &format!("generator #{} after update with a {}-byte piece", li, n), l.g.as_ref(), l.fed, &data, &mut cache, st)?;
        }
        step += 1;
        if !progressed {
            break;
        }
        if step > 400 {
            break;
        }
    }
    // every generator must have consumed everything
    for (li, l) in live.iter().enumerate() {
        if l.fed != total {
            return Err(format!("harness: generator #{} consumed {} of {}", li, l.fed, total));
        }
    }
    if nonempty >= 2 && total >= 5 && (partial_after_full || mid_events) {
        let mut d = fnv_mix(fnv(v.name.as_bytes()), fnv(&data));
        for p in &h.pieces {
            d = fnv_mix(d, *p as u64);
        }
        d = fnv_mix(d, h.events.len() as u64);
        st.nontrivial(d);
    }
    Ok(())
}

fn run_history(ctx: &Ctx) -> CheckResult {
    let cases = ctx.tier.pick(2000u32, 30_000);
    for va in ctx.api.variants() {
        let v = va.v();
        ctx.pt_run(
            "history",
            &format!("history/{}", v.name),
            cases,
            history_strategy(v),
            |h: &History| json!({"variant": v.name, "history": h, "data": h.data.to_json()}),
            |h: &History, st: &CaseStats| {
                st.sample(|| json!({"check": "history", "variant": v.name, "data_len": h.data.render().len(), "pieces": h.pieces, "events": h.events}));
                case_history(va, h, st)
            },
        )?;
    }
    Ok(())
}

/// All 2-cut splits of short inputs.
fn run_twocut(ctx: &Ctx) -> CheckResult {
    let live = Cell::new(true);
    let st = ctx.stats("twocut", &live);
    let n_inputs = ctx.tier.pick(12usize, 80);
    for va in ctx.api.variants() {
        let v = va.v();
        let inputs = ctx.sample_values(&format!("twocut/{}", v.name), n_inputs, &vec(any::<u8>(), 5..=24));
        for data in inputs {
            for i in 0..=data.len() {
                for j in i..=data.len() {
                    let h = History { data: DataSpec::explicit(data.clone()), pieces: vec![i, j - i], events: vec![], fork_pieces: vec![] };
                    if let Err(m) = case_history(va, &h, &st) {
                        return Err(ctx.violation("history", m, json!({"variant": v.name, "history": h, "data": h.data.to_json()})));
                    }
                }
            }
            st.sample(|| json!({"check": "twocut", "variant": v.name, "data": crate::ctx::hex(&data)}));
        }
    }
    ctx.exhaustive("all 2-cut splits (i <= j) of each sampled input of 5..=24 bytes");
    Ok(())
}

/// One `update` call with a slice of 2^32 + 4096 bytes (a lazily mapped all-zero slab: virtual
/// memory only) against the same bytes in pieces that each fit in 32 bits, incl. empty and 1-3
/// byte pieces: same reported length, same result under all 32 option settings.  The slice
/// length itself does not fit in the 32-bit counter; nothing below 4 GiB exercises that.
pub fn case_hugeslice(va: &dyn VariantApi, big: &[u8], room: Option<u32>) -> Result<(), String> {
    let v = va.v();
    // `room`: start from an injected state (hook) that has room for exactly this many more
    // window positions before the 32-bit counter is full, so that one pass costs `room` bytes
    // instead of 4 GiB; None = a fresh generator.
    let start = || -> Box<dyn GenObj> {
        match room {
            None => va.generator(),
            Some(k) => {
                let mut gs = gens::StateSpec { buckets: gens::BucketClass::Plausible, len: gens::LenClass::Big, seed: k as u64 }.render(v);
                gs.len = (u32::MAX - 3) - k;
                va.gen_from_state(&gs).expect("hook gen_from_state")
            }
        }
    };
    let observe = |g: &dyn GenObj| -> (Option<u32>, Vec<String>) {
        let mut o: Vec<String> = (0..32).map(|oi| format!("{:?}", g.finalize(Opts::from_index(oi)).map(|h| h.display()))).collect();
        o.push(match g.state() {
            Some(st) => format!(
                "len={} tail={:?}/{} checksum={:?} buckets(sum={}, fnv={:016x})",
                st.len,
                st.tail,
                st.tail_len,
                st.checksum,
                st.buckets.iter().map(|&b| b as u64).sum::<u64>(),
                st.buckets.iter().fold(0xcbf29ce484222325u64, |h, &b| fnv_mix(h, b as u64))
            ),
            None => "n/a".to_string(),
        });
        (g.processed_len(), o)
    };
    let half = big.len() / 2 - 8;
    let cuts = [0usize, 1, 3, half, 0, 2, half / 2 + 5];
    // the two feeds run concurrently (each is one pass over 4 GiB)
    let (whole, split) = std::thread::scope(|sc| {
        let w = sc.spawn(|| {
            catch(|| {
                let mut g = start();
                g.update(big);
                observe(g.as_ref())
            })
        });
        let s = catch(|| {
            let mut g = start();
            let mut off = 0usize;
            for c in cuts {
                g.update(&big[off..off + c]);
                off += c;
            }
            g.update(&big[off..]);
            observe(g.as_ref())
        });
        (w.join().unwrap_or_else(|_| Err("worker thread died".into())), s)
    });
    let whole = whole.map_err(|p| format!("{}: one update with {} bytes panicked: {}", v.name, big.len(), p))?;
    let split = split.map_err(|p| format!("{}: split feed of {} bytes panicked: {}", v.name, big.len(), p))?;
    if whole != split {
        let i = (0..33).find(|&i| whole.1[i] != split.1[i]).unwrap_or(0);
        return Err(format!(
            "{}{}: one update with {} bytes: processed_len {:?}, {} = {}; the same bytes in pieces {:?} + rest: processed_len {:?}, the same observation = {}",
            v.name,
            room.map(|k| format!(" (injected state with room for {} more bytes)", k)).unwrap_or_default(),
            big.len(),
            whole.0,
            if i < 32 { format!("finalize({})", opt_name(i)) } else { "internal state".to_string() },
            whole.1[i],
            cuts,
            split.0,
            split.1[i]
        ));
    }
    Ok(())
}

pub const HUGE: usize = (1usize << 32) + 4096;

/// Rooms for the injected variant: around the lengths a truncated 32-bit slice length would
/// yield (2^32 + 4096 -> 4096) and one that starts exactly at the too-large mark.
pub const ROOMS: [u32; 9] = [0, 1, 3, 5, 4095, 4096, 4097, 65_536, 70_686_076];

fn run_hugeslice(ctx: &Ctx) -> CheckResult {
    let quick = ctx.tier == crate::ctx::Tier::Quick;
    if quick && ctx.config != "default" {
        ctx.skipped("hugeslice: quick tier runs it in the default configuration only");
        return Ok(());
    }
    let big = vec![0u8; HUGE];
    let vs = ctx.api.variants();
    let mut jobs: Vec<(usize, Option<u32>)> = Vec::new();
    for i in 0..vs.len() {
        if vs[i].gen_from_state(&gens::StateSpec { buckets: gens::BucketClass::Plausible, len: gens::LenClass::Big, seed: 0 }.render(vs[i].v())).is_some() {
            jobs.extend(ROOMS.iter().map(|&k| (i, Some(k))));
        }
        if !quick {
            // a fresh generator: a full 4 GiB pass per feed
            jobs.push((i, None));
        }
    }
    // mid-size single slices from FRESH generators (2^28 + 1000 and 2^29 + 7 bytes, ~3 s a pass):
    // an update that internally proceeds block by block must account for every block
    let mids: Vec<(usize, usize)> = (0..vs.len()).map(|i| (i, if (i + ctx.seed as usize) % 2 == 0 { (1usize << 28) + 1000 } else { (1usize << 29) + 7 })).collect();
    let mid_res = par_map(ctx.threads, &mids, |&(i, n)| case_hugeslice(vs[i], &big[..n], None));
    for (&(i, n), r) in mids.iter().zip(mid_res) {
        ctx.ev.borrow_mut().evaluations += 68;
        ctx.ev.borrow_mut().nontrivial_enumerated += 1;
        if let Err(m) = r {
            return Err(ctx.violation("midslice", m, json!({"variant": vs[i].v().name, "n": n})));
        }
    }
    let res = par_map(ctx.threads, &jobs, |&(i, room)| case_hugeslice(vs[i], &big, room));
    for (&(i, room), r) in jobs.iter().zip(res) {
        ctx.ev.borrow_mut().evaluations += 68;
        ctx.ev.borrow_mut().nontrivial_enumerated += 1;
        if let Err(m) = r {
            return Err(ctx.violation("hugeslice", m, json!({"variant": vs[i].v().name, "room": room})));
        }
    }
    ctx.subcheck("hugeslice", jobs.len() as u64);
    if quick {
        ctx.skipped("hugeslice from a fresh generator (two 4 GiB passes per variant): thorough tier only; quick uses injected states");
    }
    ctx.ev.borrow_mut().sample(json!({"check": "hugeslice", "slice_len": HUGE, "pieces": "0,1,3,2^31,0,2,2^31+5,rest", "rooms": ROOMS, "jobs": jobs.len()}));
    Ok(())
}

pub fn replay(ctx: &Ctx, check: &str, case: &Value) -> Result<(), String> {
    if check == "midslice" {
        let va = super::codec::variant_of(ctx.api, case)?;
        let n = case.get("n").and_then(|x| x.as_u64()).unwrap_or(1 << 28) as usize;
        return case_hugeslice(va, &vec![0u8; n], None);
    }
    if check == "hugeslice" {
        let va = super::codec::variant_of(ctx.api, case)?;
        let room = case.get("room").and_then(|x| x.as_u64()).map(|x| x as u32);
        return case_hugeslice(va, &vec![0u8; HUGE], room);
    }
    let live = Cell::new(true);
    let st = ctx.stats("replay", &live);
    let va = super::codec::variant_of(ctx.api, case)?;
    let h: History = serde_json::from_value(case.get("history").cloned().ok_or("no history")?).map_err(|e| e.to_string())?;
    case_history(va, &h, &st)
}
