//! C03 — the hash is independent of how the input is chunked, finalized or cloned.
//! Metamorphic oracle: a fresh generator fed the same bytes in one update.

use super::common::*;
use super::{CheckResult, Sub};
use crate::api::*;
use crate::ctx::{fnv, fnv_mix, CaseStats, Ctx};
use crate::gens::{self, DataSpec};
use proptest::collection::vec;
use proptest::prelude::*;
use serde_json::{json, Value};
use std::cell::Cell;
use std::collections::HashMap;

pub fn subs() -> Vec<Sub> {
    vec![Sub { name: "history", run: run_history }, Sub { name: "twocut", run: run_twocut }]
}

#[derive(Debug, Clone, PartialEq, Eq, serde::Serialize, serde::Deserialize)]
pub enum Ev {
    /// finalize every live generator with this option index (and keep going)
    Finalize(u8),
    /// clone the main generator; the clone continues with its own piece plan
    Fork,
}

#[derive(Debug, Clone, PartialEq, Eq, serde::Serialize, serde::Deserialize)]
pub struct History {
    pub data: DataSpec,
    /// piece lengths of the main generator (the remainder goes into a final piece)
    pub pieces: Vec<usize>,
    /// events applied before the main generator's piece with this index
    pub events: Vec<(u8, Ev)>,
    /// piece lengths of a forked generator (each fork takes the next plan)
    pub fork_pieces: Vec<Vec<usize>>,
}

fn piece_len() -> impl Strategy<Value = usize> {
    // incl. exact block sizes (and block size +- the 4-byte tail) an implementation may special-case
    let blocks = (proptest::sample::select(vec![16usize, 32, 64, 128, 256, 512, 1024, 2048]), proptest::sample::select(vec![0i64, 0, 4, -4, 1, -1]))
        .prop_map(|(p, d)| (p as i64 + d) as usize);
    prop_oneof![5 => 0usize..=4, 2 => 5usize..=9, 2 => 10usize..=200, 1 => 200usize..=3000, 1 => blocks]
}

pub fn history_strategy(v: vmodel::Variant) -> impl Strategy<Value = History> {
    let data = prop_oneof![
        2 => vec(any::<u8>(), 0..=12).prop_map(DataSpec::explicit),
        5 => gens::data_strategy(v, 6000),
    ];
    let ev = prop_oneof![2 => (0u8..32).prop_map(Ev::Finalize), 1 => Just(Ev::Fork)];
    (data, vec(piece_len(), 0..40), vec((0u8..40, ev), 0..5), vec(vec(piece_len(), 0..30), 2))
        .prop_map(|(data, pieces, events, fork_pieces)| History { data, pieces, events, fork_pieces })
}

struct Live {
    g: G,
    fed: usize,
    plan: Vec<usize>,
    next: usize,
}

type Obs = (Option<u32>, Vec<Result<Vec<u8>, GErr>>);

fn observe(va: &dyn VariantApi, g: &dyn GenObj) -> Result<Obs, String> {
    let n = va.v().size();
    let mut r = Vec::with_capacity(32);
    for oi in 0..32 {
        r.push(match g.finalize(Opts::from_index(oi)) {
            Ok(h) => Ok(super::codec::store_vec(h.as_ref(), n)?),
            Err(e) => Err(e),
        });
    }
    Ok((g.processed_len(), r))
}

fn check_equal(va: &dyn VariantApi, what: &str, g: &dyn GenObj, fed: usize, data: &[u8], cache: &mut HashMap<usize, Obs>, st: &CaseStats) -> Result<(), String> {
    let v = va.v();
    if !cache.contains_key(&fed) {
        let mut fresh = va.generator();
        fresh.update(&data[..fed]);
        cache.insert(fed, observe(va, fresh.as_ref())?);
    }
    let want = &cache[&fed];
    let got = observe(va, g)?;
    st.evals(33);
    if got.0 != Some(fed as u32) {
        return Err(format!("{}: {}: processed_len() = {:?} after {} bytes", v.name, what, got.0, fed));
    }
    if got.0 != want.0 {
        return Err(format!("{}: {}: processed_len() {:?} != one-shot {:?}", v.name, what, got.0, want.0));
    }
    for oi in 0..32 {
        if got.1[oi] != want.1[oi] {
            let sh = |r: &Result<Vec<u8>, GErr>| match r {
                Ok(b) => crate::ctx::hex(b),
                Err(e) => format!("{:?}", e),
            };
            return Err(format!(
                "{}: {}: after {} bytes finalize_with_options({}) = {} but a fresh generator fed the same bytes in one update gives {}",
                v.name,
                what,
                fed,
                opt_name(oi),
                sh(&got.1[oi]),
                sh(&want.1[oi])
            ));
        }
    }
    Ok(())
}

pub fn case_history(va: &dyn VariantApi, h: &History, st: &CaseStats) -> Result<(), String> {
    let v = va.v();
    let data = h.data.render();
    let total = data.len();
    let mut cache: HashMap<usize, Obs> = HashMap::new();
    let mut live = vec![Live { g: va.generator(), fed: 0, plan: h.pieces.clone(), next: 0 }];
    let mut forks_used = 0;
    let (mut nonempty, mut partial_after_full, mut mid_events) = (0usize, false, false);
    let mut step = 0usize;
    loop {
        // events scheduled before this piece index of the main generator
        for (at, ev) in &h.events {
            if *at as usize == step {
                match ev {
                    Ev::Finalize(o) => {
                        for (li, l) in live.iter().enumerate() {
                            // the finalize itself (result checked against the oracle below)
                            let _ = l.g.finalize(Opts::from_index(*o as usize));
                            check_equal(va, &format!("generator #{} after an interleaved finalize", li), l.g.as_ref(), l.fed, &data, &mut cache, st)?;
                        }
                        if live[0].fed > 0 && live[0].fed < total {
                            mid_events = true;
                        }
                        st.class("event: interleaved finalize");
                    }
                    Ev::Fork => {
                        if forks_used < h.fork_pieces.len() {
                            let c = live[0].g.boxed_clone();
                            let fed = live[0].fed;
                            live.push(Live { g: c, fed, plan: h.fork_pieces[forks_used].clone(), next: 0 });
                            forks_used += 1;
                            if fed > 0 && fed < total {
                                mid_events = true;
                            }
                            st.class("event: fork");
                        }
                    }
                }
            }
        }
        // every live generator feeds its next piece
        let mut progressed = false;
        for (li, l) in live.iter_mut().enumerate() {
            if l.fed >= total && l.next >= l.plan.len() {
                continue;
            }
            let want = if l.next < l.plan.len() { l.plan[l.next] } else { total - l.fed };
            let n = want.min(total - l.fed);
            l.next += 1;
            let piece = &data[l.fed..l.fed + n];
            // classify the tail path this piece takes
            if l.fed < 4 {
                st.class("tail path: fill prologue");
            } else if n == 0 {
                st.class("tail path: empty piece");
            } else if n < 4 {
                st.class("tail path: partial rewrite");
                partial_after_full = true;
            } else {
                st.class("tail path: full rewrite");
            }
            if n > 0 {
                nonempty += 1;
            }
            l.g.update(piece);
            l.fed += n;
            progressed = true;
            check_equal(va, &format!("generator #{} after update with a {}-byte piece", li, n), l.g.as_ref(), l.fed, &data, &mut cache, st)?;
        }
        step += 1;
        if !progressed {
            break;
        }
        if step > 400 {
            break;
        }
    }
    // every generator must have consumed everything
    for (li, l) in live.iter().enumerate() {
        if l.fed != total {
            return Err(format!("harness: generator #{} consumed {} of {}", li, l.fed, total));
        }
    }
    if nonempty >= 2 && total >= 5 && (partial_after_full || mid_events) {
        let mut d = fnv_mix(fnv(v.name.as_bytes()), fnv(&data));
        for p in &h.pieces {
            d = fnv_mix(d, *p as u64);
        }
        d = fnv_mix(d, h.events.len() as u64);
        st.nontrivial(d);
    }
    Ok(())
}

fn run_history(ctx: &Ctx) -> CheckResult {
    let cases = ctx.tier.pick(2000u32, 30_000);
    for va in ctx.api.variants() {
        let v = va.v();
        ctx.pt_run(
            "history",
            &format!("history/{}", v.name),
            cases,
            history_strategy(v),
            |h: &History| json!({"variant": v.name, "history": h, "data": h.data.to_json()}),
            |h: &History, st: &CaseStats| {
                st.sample(|| json!({"check": "history", "variant": v.name, "data_len": h.data.render().len(), "pieces": h.pieces, "events": h.events}));
                case_history(va, h, st)
            },
        )?;
    }
    Ok(())
}

/// All 2-cut splits of short inputs.
fn run_twocut(ctx: &Ctx) -> CheckResult {
    let live = Cell::new(true);
    let st = ctx.stats("twocut", &live);
    let n_inputs = ctx.tier.pick(12usize, 80);
    for va in ctx.api.variants() {
        let v = va.v();
        let inputs = ctx.sample_values(&format!("twocut/{}", v.name), n_inputs, &vec(any::<u8>(), 5..=24));
        for data in inputs {
            for i in 0..=data.len() {
                for j in i..=data.len() {
                    let h = History { data: DataSpec::explicit(data.clone()), pieces: vec![i, j - i], events: vec![], fork_pieces: vec![] };
                    if let Err(m) = case_history(va, &h, &st) {
                        return Err(ctx.violation("history", m, json!({"variant": v.name, "history": h, "data": h.data.to_json()})));
                    }
                }
            }
            st.sample(|| json!({"check": "twocut", "variant": v.name, "data": crate::ctx::hex(&data)}));
        }
    }
    ctx.exhaustive("all 2-cut splits (i <= j) of each sampled input of 5..=24 bytes");
    Ok(())
}

pub fn replay(ctx: &Ctx, _check: &str, case: &Value) -> Result<(), String> {
    let live = Cell::new(true);
    let st = ctx.stats("replay", &live);
    let va = super::codec::variant_of(ctx.api, case)?;
    let h: History = serde_json::from_value(case.get("history").cloned().ok_or("no history")?).map_err(|e| e.to_string())?;
    case_history(va, &h, &st)
}
