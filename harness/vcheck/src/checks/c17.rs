//! C17 — the safe API is total and memory-safe in every configuration.
//!
//! API call sequences (including adversarial `Read` implementations) run in
//! child processes so that an abort / SIGSEGV / SIGILL is observed, with the
//! in-flight sequence saved before it is executed.  Oracles: crash (signal),
//! panic discipline, and per-sequence transcripts that the driver compares
//! between the `unsafe` builds and their safe twins.

use super::{CheckResult, Sub};
use crate::api::*;
use crate::ctx::{catch, fnv, fnv_mix, hex, CaseStats, Ctx, Tier};
use crate::gens::{self, DataSpec, TextSpec};
use proptest::collection::vec;
use proptest::prelude::*;
use serde_json::{json, Value};
use std::cell::{Cell, RefCell};
use std::io::{self, ErrorKind, Read};

pub fn subs() -> Vec<Sub> {
    vec![Sub { name: "sequences", run: run_sequences }, Sub { name: "lensweep", run: run_lensweep }]
}

#[derive(Debug, Clone, PartialEq, Eq, serde::Serialize, serde::Deserialize)]
pub enum QIdx {
    In(u16),
    N,
    NPlus1,
    Times4,
    Max,
}

#[derive(Debug, Clone, PartialEq, Eq, serde::Serialize, serde::Deserialize)]
pub enum ReaderKind {
    /// honest, delivering chunks of this size
    Honest(u32),
    /// honest for `after` calls, then fills the buffer and reports buf.len() + extra
    LiePlus { after: u8, extra: u32 },
    /// reports usize::MAX
    LieMax { after: u8 },
    /// writes 10 bytes but reports n <= buf.len() (legal: stale buffer content counts as read)
    ReportMoreThanWritten(u32),
    /// reports n <= buf.len() without writing anything
    NoWrite(u32),
    /// Interrupted, data, then a hard error
    AlternateErrors,
}

impl ReaderKind {
    pub fn violates_contract(&self) -> bool {
        matches!(self, ReaderKind::LiePlus { .. } | ReaderKind::LieMax { .. })
    }
}

#[derive(Debug, Clone, PartialEq, Eq, serde::Serialize, serde::Deserialize)]
pub enum Op {
    GenNew,
    /// (hook) replace the generator by one whose state says `mark - back` bytes were consumed
    /// (mark 0: 4,224,281,216; mark 1: 2^32), so that later updates cross the limits
    GenInject(u8, u16),
    GenUpdate(DataSpec),
    GenFinalize(u8),
    GenFinalizeDefault,
    GenProcessedLen,
    GenClone,
    ParseText(TextSpec, u8),
    ParseSlice(Vec<u8>),
    ParseArray(Vec<u8>),
    StoreBytes(u16),
    StoreStr(bool, u16),
    Display,
    Compare(bool),
    CompareParts,
    ClearChecksum,
    Accessors,
    Quartile(QIdx),
    LenNew(u32),
    LenTryFrom(u32),
    LenRange(u8),
    LenCompare(u8, u8),
    Validity(u32),
    MaxDistance,
    CompareWith(String, String),
    HashBuf(DataSpec),
    HashStream(ReaderKind, DataSpec),
    HashFile(u8),
}

#[derive(Debug, Clone, PartialEq, Eq, serde::Serialize, serde::Deserialize)]
pub struct Sequence {
    pub variant: u8,
    pub ops: Vec<Op>,
}

struct AdvReader {
    kind: ReaderKind,
    data: Vec<u8>,
    pos: usize,
    calls: u32,
    lied: bool,
}

impl Read for AdvReader {
    fn read(&mut self, buf: &mut [u8]) -> io::Result<usize> {
        self.calls += 1;
        let remaining = self.data.len() - self.pos;
        let mut honest = |me: &mut AdvReader, chunk: usize| -> usize {
            let n = chunk.max(1).min(buf.len()).min(remaining);
            buf[..n].copy_from_slice(&me.data[me.pos..me.pos + n]);
            me.pos += n;
            n
        };
        match self.kind.clone() {
            ReaderKind::Honest(c) => Ok(honest(self, c as usize)),
            ReaderKind::LiePlus { after, extra } => {
                if self.calls > after as u32 && !self.lied {
                    self.lied = true;
                    honest(self, usize::MAX);
                    Ok(buf.len().saturating_add(extra.max(1) as usize))
                } else if self.lied {
                    Ok(0)
                } else {
                    Ok(honest(self, 4096))
                }
            }
            ReaderKind::LieMax { after } => {
                if self.calls > after as u32 && !self.lied {
                    self.lied = true;
                    Ok(usize::MAX)
                } else if self.lied {
                    Ok(0)
                } else {
                    Ok(honest(self, 4096))
                }
            }
            ReaderKind::ReportMoreThanWritten(n) => {
                // two reads: each may claim the whole 1 MiB buffer, which is then hashed
                if self.calls > 2 {
                    return Ok(0);
                }
                let k = 10.min(buf.len());
                for b in buf[..k].iter_mut() {
                    *b = 0x77;
                }
                Ok((n as usize).min(buf.len()))
            }
            ReaderKind::NoWrite(n) => {
                if self.calls > 2 {
                    return Ok(0);
                }
                Ok((n as usize).min(buf.len()))
            }
            ReaderKind::AlternateErrors => match self.calls {
                1 | 3 => Err(io::Error::new(ErrorKind::Interrupted, "again")),
                2 => Ok(honest(self, 700)),
                4 => Ok(honest(self, 5)),
                _ => Err(io::Error::new(ErrorKind::Other, "hard")),
            },
        }
    }
}

fn show_h(r: &Result<H, impl std::fmt::Debug>) -> String {
    match r {
        Ok(h) => format!("Ok({})", h.display()),
        Err(e) => format!("Err({:?})", e),
    }
}

/// Executes one sequence.  Returns the transcript; `Err` on a disallowed panic.
pub fn exec(api: &dyn GlobalApi, s: &Sequence, st: &CaseStats) -> Result<Vec<String>, String> {
    let vs = api.variants();
    let va = vs[s.variant as usize % vs.len()];
    let v = va.v();
    let caps = api.caps();
    let mut g: G = va.generator();
    let mut a: Option<H> = None;
    let mut b: Option<H> = None;
    let mut t: Vec<String> = Vec::with_capacity(s.ops.len());
    let mut fed: usize = 0;
    let mut interesting = (false, false, false);
    for (i, op) in s.ops.iter().enumerate() {
        st.eval();
        let mut allowed_panic = false;
        let r = catch(|| -> String {
            match op {
                Op::GenNew => {
                    g = va.generator();
                    fed = 0;
                    "new".into()
                }
                Op::GenInject(mark, back) => {
                    let m: u64 = if mark % 2 == 0 { vmodel::MAX_LEN } else { 1u64 << 32 };
                    let total = (m - *back as u64).min(u32::MAX as u64) as u32;
                    let spec = gens::StateSpec { buckets: gens::BucketClass::Plausible, len: gens::LenClass::Exact(total), seed: total as u64 };
                    match va.gen_from_state(&spec.render(v)) {
                        Some(x) => {
                            g = x;
                            fed = 1 << 20;
                            format!("inject {}", total)
                        }
                        None => "n/a".into(),
                    }
                }
                Op::GenUpdate(d) => {
                    let d = d.render();
                    g.update(&d);
                    fed += d.len();
                    format!("update {}", d.len())
                }
                Op::GenFinalize(o) => {
                    let r = g.finalize(Opts::from_index(*o as usize % 32));
                    let s = show_h(&r);
                    if let Ok(h) = r {
                        if fed >= 50 {
                            interesting.0 = true;
                        }
                        b = a.take();
                        a = Some(h);
                    }
                    s
                }
                Op::GenFinalizeDefault => {
                    let r = g.finalize_default();
                    let s = show_h(&r);
                    if let Ok(h) = r {
                        b = a.take();
                        a = Some(h);
                    }
                    s
                }
                Op::GenProcessedLen => format!("{:?}", g.processed_len()),
                Op::GenClone => {
                    g = g.boxed_clone();
                    "clone".into()
                }
                Op::ParseText(ts, m) => {
                    let text = ts.render(v);
                    let p = super::codec::MODES[*m as usize % 3];
                    let r = va.from_str_bytes(&text, p);
                    let mut s = show_h(&r);
                    if let Ok(u) = std::str::from_utf8(&text) {
                        s.push_str(&format!(" | {}", show_h(&va.from_str_with(u, p))));
                        s.push_str(&format!(" | {}", show_h(&va.from_str(u))));
                    }
                    interesting.1 = true;
                    if let Ok(h) = r {
                        b = a.take();
                        a = Some(h);
                    }
                    s
                }
                Op::ParseSlice(x) => {
                    let r = va.try_from_slice(x);
                    let s = show_h(&r);
                    if let Ok(h) = r {
                        b = a.take();
                        a = Some(h);
                    }
                    s
                }
                Op::ParseArray(x) => {
                    let mut x = x.clone();
                    x.resize(v.size(), 0x5c);
                    let r = va.try_from_array(&x);
                    let s = show_h(&r);
                    if let Ok(h) = r {
                        b = a.take();
                        a = Some(h);
                    }
                    s
                }
                Op::StoreBytes(l) => match &a {
                    Some(h) => {
                        let mut buf = vec![0xEEu8; *l as usize % 200];
                        let r = h.store_bytes(&mut buf);
                        format!("{:?} {}", r, hex(&buf))
                    }
                    None => "-".into(),
                },
                Op::StoreStr(p, l) => match &a {
                    Some(h) => {
                        let mut buf = vec![0xEEu8; *l as usize % 300];
                        let r = h.store_str(&mut buf, if *p { Prefix::WithVersion } else { Prefix::Empty });
                        format!("{:?} {}", r, hex(&buf))
                    }
                    None => "-".into(),
                },
                Op::Display => match &a {
                    Some(h) => {
                        let d = h.display();
                        // the from_utf8_unchecked assumption: the text is ASCII hex
                        if !d.bytes().all(|c| c.is_ascii_alphanumeric()) || d != h.to_string_() {
                            panic!("Display produced a non-ASCII-hex string {:?}", d);
                        }
                        d
                    }
                    None => "-".into(),
                },
                Op::Compare(nl) => match (&a, &b) {
                    (Some(x), Some(y)) => {
                        interesting.1 = true;
                        format!("{} {}", x.compare(y.as_ref(), *nl), y.compare_default(x.as_ref()))
                    }
                    _ => "-".into(),
                },
                Op::CompareParts => match (&a, &b) {
                    (Some(x), Some(y)) => format!("{:?}", x.compare_parts(y.as_ref())),
                    _ => "-".into(),
                },
                Op::ClearChecksum => {
                    if let Some(h) = &mut a {
                        h.clear_checksum();
                    }
                    "clear".into()
                }
                Op::Accessors => match &a {
                    Some(h) => format!(
                        "{} {} {} {} {} {} {} {} {}",
                        hex(&h.checksum()),
                        h.checksum_valid(),
                        h.lvalue(),
                        h.length_valid(),
                        h.qvalue(),
                        h.q1(),
                        h.q2(),
                        hex(&h.body()),
                        h.debug().len()
                    ),
                    None => "-".into(),
                },
                Op::Quartile(q) => match &a {
                    Some(h) => {
                        let i = match q {
                            QIdx::In(k) => *k as usize % v.buckets,
                            QIdx::N => v.buckets,
                            QIdx::NPlus1 => v.buckets + 1,
                            QIdx::Times4 => v.buckets * 4,
                            QIdx::Max => usize::MAX,
                        };
                        allowed_panic = i >= v.buckets;
                        format!("{}", h.quartile(i))
                    }
                    None => "-".into(),
                },
                Op::LenNew(n) => format!("{:?}", api.len_new(*n)),
                Op::LenTryFrom(n) => format!("{:?}", api.len_try_from(*n)),
                Op::LenRange(c) => format!("{:?} {}", api.len_range(*c), api.len_is_valid(*c)),
                Op::LenCompare(x, y) => format!("{}", api.len_compare(*x, *y)),
                Op::Validity(n) => {
                    let val = va.validity(*n);
                    format!("{:?} {} {} {}", val, api.validity_is_err(val), api.validity_is_err_on(val, false), api.validity_is_err_on(val, true))
                }
                Op::MaxDistance => format!("{} {}", va.max_distance(false), va.max_distance(true)),
                Op::CompareWith(l, r) => format!("{:?} {:?}", va.compare_with(l, r), if v.name == "Normal" { api.compare_normal(l, r) } else { None }),
                Op::HashBuf(d) => match va.hash_buf(&d.render()) {
                    Some(r) => show_h(&r),
                    None => "n/a".into(),
                },
                Op::HashStream(kind, d) => {
                    if !(caps.easy && caps.std) {
                        return "n/a".into();
                    }
                    allowed_panic = kind.violates_contract();
                    if allowed_panic {
                        interesting.2 = true;
                    }
                    let mut rd = AdvReader { kind: kind.clone(), data: d.render(), pos: 0, calls: 0, lied: false };
                    match va.hash_stream(&mut rd).unwrap() {
                        Ok(h) => format!("Ok({})", h.display()),
                        Err(StreamErr::Gen(e)) => format!("Err(Gen({:?}))", e),
                        Err(StreamErr::Io(e)) => format!("Err(Io({:?}))", e.kind()),
                    }
                }
                Op::HashFile(k) => {
                    if !(caps.easy && caps.std) {
                        return "n/a".into();
                    }
                    let p: &str = match k % 6 {
                        0 => "",
                        1 => "/",
                        2 => "/nonexistent/verif/x",
                        3 => "/dev/null",
                        4 => "/proc/self/cmdline",
                        _ => "\u{0}bad",
                    };
                    match va.hash_file(std::path::Path::new(p)).unwrap() {
                        // the content of /proc files is not stable: record the outcome class only
                        Ok(_) => "Ok".into(),
                        Err(StreamErr::Gen(e)) => format!("Err(Gen({:?}))", e),
                        Err(StreamErr::Io(_)) => "Err(Io)".into(),
                    }
                }
            }
        });
        match r {
            Ok(line) => t.push(line),
            Err(p) => {
                if allowed_panic {
                    t.push("panic(allowed)".into());
                    // the generator / hashes are still usable objects
                } else {
                    return Err(format!(
                        "{}: op #{} {:?} panicked: {} — only the documented out-of-range bucket index and a contract-violating reader may panic",
                        v.name,
                        i,
                        short(op),
                        p
                    ));
                }
            }
        }
    }
    if (interesting.0 && interesting.1) || interesting.2 {
        let d = fnv(serde_json::to_string(s).unwrap().as_bytes());
        st.nontrivial(d);
    }
    if interesting.2 {
        st.class("sequence with a contract-violating reader");
    }
    Ok(t)
}

/// Bounds sizes in a sequence decoded from arbitrary bytes (fuzzing): nothing huge is allocated.
pub fn sanitize(s: &mut Sequence) {
    s.ops.truncate(40);
    let clamp = |d: &mut DataSpec| {
        d.len = d.len.min(150_000);
        if let Some(e) = &mut d.explicit {
            e.truncate(150_000);
        }
    };
    for op in s.ops.iter_mut() {
        match op {
            Op::GenUpdate(d) | Op::HashBuf(d) => clamp(d),
            Op::HashStream(_, d) => {
                clamp(d);
                d.len = d.len.min(1_100_000);
            }
            Op::ParseText(t, _) => {
                t.base.resize(69, 0);
                t.muts.truncate(8);
                if let Some(r) = &mut t.raw {
                    r.truncate(400);
                }
            }
            Op::ParseSlice(x) | Op::ParseArray(x) => x.truncate(200),
            Op::CompareWith(l, r) => {
                let cut = |x: &mut String| {
                    if x.len() > 400 {
                        *x = x.chars().take(100).collect();
                    }
                };
                cut(l);
                cut(r);
            }
            _ => {}
        }
    }
}

fn short(op: &Op) -> String {
    let s = format!("{:?}", op);
    if s.chars().count() > 160 {
        let cut: String = s.chars().take(160).collect();
        format!("{}…", cut)
    } else {
        s
    }
}

fn reader_strategy() -> impl Strategy<Value = ReaderKind> {
    prop_oneof![
        3 => prop_oneof![1u32..10, 100u32..5000, Just(1u32 << 20)].prop_map(ReaderKind::Honest),
        3 => (0u8..3, prop_oneof![Just(1u32), Just(2), Just(4096), Just(1 << 20), any::<u32>()]).prop_map(|(after, extra)| ReaderKind::LiePlus { after, extra }),
        1 => (0u8..3).prop_map(|after| ReaderKind::LieMax { after }),
        1 => prop_oneof![Just(1000u32), Just(1 << 20), any::<u32>()].prop_map(ReaderKind::ReportMoreThanWritten),
        1 => prop_oneof![Just(0u32), Just(77), Just(1 << 20), any::<u32>()].prop_map(ReaderKind::NoWrite),
        1 => Just(ReaderKind::AlternateErrors),
    ]
}

fn op_strategy(v: vmodel::Variant) -> impl Strategy<Value = Op> {
    let n = v.size();
    let small_data = || prop_oneof![3 => gens::data_strategy(v, 600), 1 => gens::data_strategy(v, 70_000)];
    let stream_data = prop_oneof![4 => gens::data_strategy(v, 5000), 1 => (1usize << 20..(1usize << 20) + 5000, any::<u64>()).prop_map(|(len, seed)| DataSpec { kind: gens::Kind::Periodic(17, 3), len, seed, explicit: None })];
    let q = prop_oneof![4 => any::<u16>().prop_map(QIdx::In), 1 => Just(QIdx::N), 1 => Just(QIdx::NPlus1), 1 => Just(QIdx::Times4), 1 => Just(QIdx::Max)];
    let u32s = prop_oneof![any::<u32>(), 0u32..300, Just(4_224_281_216), Just(4_224_281_217), Just(u32::MAX), (0u32..32).prop_map(|s| 1u32 << s)];
    prop_oneof![
        1 => Just(Op::GenNew),
        2 => (0u8..2, prop_oneof![0u16..40, any::<u16>()]).prop_map(|(m, b)| Op::GenInject(m, b)),
        8 => small_data().prop_map(Op::GenUpdate),
        5 => (0u8..32).prop_map(Op::GenFinalize),
        1 => Just(Op::GenFinalizeDefault),
        1 => Just(Op::GenProcessedLen),
        1 => Just(Op::GenClone),
        5 => (gens::text_strategy(v), 0u8..3).prop_map(|(t, m)| Op::ParseText(t, m)),
        2 => prop_oneof![vec(any::<u8>(), n), vec(any::<u8>(), 0..2 * n)].prop_map(Op::ParseSlice),
        2 => vec(any::<u8>(), 0..=n).prop_map(Op::ParseArray),
        2 => any::<u16>().prop_map(Op::StoreBytes),
        2 => (any::<bool>(), any::<u16>()).prop_map(|(p, l)| Op::StoreStr(p, l)),
        1 => Just(Op::Display),
        3 => any::<bool>().prop_map(Op::Compare),
        1 => Just(Op::CompareParts),
        1 => Just(Op::ClearChecksum),
        1 => Just(Op::Accessors),
        3 => q.prop_map(Op::Quartile),
        1 => u32s.clone().prop_map(Op::LenNew),
        1 => u32s.clone().prop_map(Op::LenTryFrom),
        1 => any::<u8>().prop_map(Op::LenRange),
        1 => (any::<u8>(), any::<u8>()).prop_map(|(a, b)| Op::LenCompare(a, b)),
        1 => u32s.prop_map(Op::Validity),
        1 => Just(Op::MaxDistance),
        2 => (gens::utf8_text_strategy(v), gens::utf8_text_strategy(v)).prop_map(|(l, r)| Op::CompareWith(l, r)),
        1 => small_data().prop_map(Op::HashBuf),
        4 => (reader_strategy(), stream_data).prop_map(|(k, d)| Op::HashStream(k, d)),
        1 => any::<u8>().prop_map(Op::HashFile),
    ]
}

pub fn sequence_strategy() -> impl Strategy<Value = Sequence> {
    (0u8..5).prop_flat_map(|vi| {
        let v = vmodel::VARIANTS[vi as usize];
        vec(op_strategy(v), 1..30).prop_map(move |ops| Sequence { variant: vi, ops })
    })
}

// ---------------------------------------------------------------- child side

fn arg<'a>(args: &'a [String], name: &str) -> Option<&'a str> {
    args.iter().position(|a| a == name).and_then(|i| args.get(i + 1)).map(|s| s.as_str())
}

/// `probe c17-batch --seed S --batch I --count N --status F --out F --cases F`
pub fn batch_child(api: &dyn GlobalApi, args: &[String]) -> i32 {
    let seed: u64 = arg(args, "--seed").and_then(|s| s.parse().ok()).unwrap_or(0);
    let batch: u64 = arg(args, "--batch").and_then(|s| s.parse().ok()).unwrap_or(0);
    let count: u32 = arg(args, "--count").and_then(|s| s.parse().ok()).unwrap_or(100);
    let status = arg(args, "--status").unwrap_or("/dev/null").to_string();
    let out = arg(args, "--out").unwrap_or("/dev/stdout").to_string();
    let cases_path = arg(args, "--cases").map(|s| s.to_string());
    let ctx = Ctx::new(api, "C17", Tier::Quick, seed, vec![]);
    let digests: RefCell<Vec<u64>> = RefCell::new(Vec::new());
    let cases: RefCell<Vec<String>> = RefCell::new(Vec::new());
    let counting = Cell::new(true);
    let r = ctx.pt_run(
        "sequence",
        &format!("seq/{}", batch),
        count,
        sequence_strategy(),
        |s: &Sequence| json!({ "sequence": s }),
        |s: &Sequence, st: &CaseStats| {
            let text = serde_json::to_string(s).unwrap();
            // saved BEFORE execution: if the process dies, this is the in-flight case
            let _ = std::fs::write(&status, &text);
            st.sample(|| json!({"check": "sequence", "variant": s.variant, "ops": s.ops.iter().map(short).collect::<Vec<_>>()}));
            let r = exec(api, s, st);
            if counting.get() {
                match &r {
                    Ok(t) => {
                        let mut d = fnv(b"t");
                        for line in t {
                            d = fnv_mix(d, fnv(line.as_bytes()));
                        }
                        digests.borrow_mut().push(d);
                        cases.borrow_mut().push(text);
                    }
                    Err(_) => counting.set(false),
                }
            }
            r.map(|_| ())
        },
    );
    let _ = std::fs::write(&status, "");
    if let Some(p) = cases_path {
        let _ = std::fs::write(p, cases.borrow().join("\n"));
    }
    let violation = match &r {
        Ok(()) => Value::Null,
        Err(v) => json!({"check": v.check, "message": v.message, "case": v.case}),
    };
    let rep = json!({"evidence": ctx.ev.borrow().to_json(), "digests": *digests.borrow(), "violation": violation});
    std::fs::write(&out, serde_json::to_string(&rep).unwrap()).expect("write batch report");
    if r.is_ok() {
        0
    } else {
        1
    }
}

/// `probe c17-one <case.json> [--transcript]`: run one sequence (for replay and crash shrinking).
pub fn one_child(api: &dyn GlobalApi, args: &[String]) -> i32 {
    let path = args.get(2).cloned().unwrap_or_default();
    let text = std::fs::read_to_string(&path).expect("read case");
    let v: Value = serde_json::from_str(&text).expect("case json");
    let sv = v.get("sequence").cloned().unwrap_or(v);
    let s: Sequence = serde_json::from_value(sv).expect("sequence");
    let live = Cell::new(false);
    let ctx = Ctx::new(api, "C17", Tier::Quick, 0, vec![]);
    let st = ctx.stats("one", &live);
    match exec(api, &s, &st) {
        Ok(t) => {
            if args.iter().any(|a| a == "--transcript") {
                for (i, l) in t.iter().enumerate() {
                    println!("{:02} {}", i, l);
                }
            }
            0
        }
        Err(m) => {
            println!("{}", m);
            1
        }
    }
}

/// Total decoder for the libFuzzer target: EVERY byte string denotes a sequence (a failed
/// decode would waste the execution), with sizes bounded by construction.
pub fn decode_lenient(data: &[u8]) -> Sequence {
    struct Cur<'a> {
        d: &'a [u8],
        p: usize,
    }
    impl<'a> Cur<'a> {
        fn u8(&mut self) -> u8 {
            let b = self.d.get(self.p).copied().unwrap_or(0);
            self.p += 1;
            b
        }
        fn u16(&mut self) -> u16 {
            u16::from_le_bytes([self.u8(), self.u8()])
        }
        fn u32(&mut self) -> u32 {
            u32::from_le_bytes([self.u8(), self.u8(), self.u8(), self.u8()])
        }
        fn u64(&mut self) -> u64 {
            (self.u32() as u64) << 32 | self.u32() as u64
        }
        fn bytes(&mut self, max: usize) -> Vec<u8> {
            let n = (self.u8() as usize * (max + 1)) >> 8;
            (0..n).map(|_| self.u8()).collect()
        }
        fn done(&self) -> bool {
            self.p >= self.d.len()
        }
    }
    fn dataspec(c: &mut Cur) -> DataSpec {
        match c.u8() % 40 {
            0..=19 => DataSpec::explicit(c.bytes(200)),
            20..=34 => {
                let kind = match c.u8() % 6 {
                    0 => gens::Kind::Uniform,
                    1 => gens::Kind::Alphabet(1 + c.u8() % 8),
                    2 => gens::Kind::Periodic(1 + c.u8() % 64, c.u8() % 40),
                    3 => gens::Kind::Text,
                    4 => gens::Kind::Runs,
                    _ => gens::Kind::Mixed,
                };
                DataSpec { kind, len: c.u16() as usize % 6000, seed: c.u64(), explicit: None }
            }
            // rare: a stream just around the helpers' 1 MiB buffer (expensive under ASan)
            35 => DataSpec { kind: gens::Kind::Periodic(1 + c.u8() % 32, 2), len: (1 << 20) - 8 + (c.u8() as usize % 32), seed: c.u64(), explicit: None },
            _ => DataSpec { kind: gens::Kind::Mixed, len: c.u16() as usize * 2, seed: c.u64(), explicit: None },
        }
    }
    fn string(c: &mut Cur) -> String {
        String::from_utf8_lossy(&c.bytes(150)).into_owned()
    }
    let mut c = Cur { d: data, p: 0 };
    let variant = c.u8() % 5;
    let mut ops = Vec::new();
    while !c.done() && ops.len() < 30 {
        let op = match c.u8() % 28 {
            0 => Op::GenNew,
            1 => Op::GenInject(c.u8(), c.u16() % 600),
            2 | 3 => Op::GenUpdate(dataspec(&mut c)),
            4 => Op::GenFinalize(c.u8()),
            5 => Op::GenFinalizeDefault,
            6 => Op::GenProcessedLen,
            7 => Op::GenClone,
            8 | 9 => {
                let raw = c.u8() % 3 == 0;
                let t = if raw {
                    TextSpec { base: vec![], with_prefix: false, muts: vec![], raw: Some(c.bytes(160)) }
                } else {
                    let base = c.bytes(69);
                    let with_prefix = c.u8() & 1 == 1;
                    let n = c.u8() % 4;
                    let muts = (0..n)
                        .map(|_| match c.u8() % 9 {
                            6 => gens::Mut::Utf8At(c.u16(), c.u8()),
                            7 => gens::Mut::Prepend(c.u8()),
                            8 => gens::Mut::Append(c.u8()),
                            0 => gens::Mut::FlipCase(c.u16()),
                            1 => gens::Mut::LowerAll,
                            2 => gens::Mut::Replace(c.u16(), c.u8(), c.u8()),
                            3 => gens::Mut::PrefixVariant(c.u8()),
                            4 => gens::Mut::Truncate(c.u16()),
                            _ => gens::Mut::InsertAt(c.u16(), c.u8()),
                        })
                        .collect();
                    TextSpec { base, with_prefix, muts, raw: None }
                };
                Op::ParseText(t, c.u8())
            }
            10 => Op::ParseSlice(c.bytes(140)),
            11 => Op::ParseArray(c.bytes(69)),
            12 => Op::StoreBytes(c.u16()),
            13 => Op::StoreStr(c.u8() & 1 == 1, c.u16()),
            14 => Op::Display,
            15 => Op::Compare(c.u8() & 1 == 1),
            16 => Op::CompareParts,
            17 => Op::ClearChecksum,
            18 => Op::Accessors,
            19 => Op::Quartile(match c.u8() % 6 {
                0 | 1 => QIdx::In(c.u16()),
                2 => QIdx::N,
                3 => QIdx::NPlus1,
                4 => QIdx::Times4,
                _ => QIdx::Max,
            }),
            20 => Op::LenNew(c.u32()),
            21 => Op::LenTryFrom(c.u32()),
            22 => Op::LenRange(c.u8()),
            23 => Op::LenCompare(c.u8(), c.u8()),
            24 => Op::Validity(c.u32()),
            25 => Op::CompareWith(string(&mut c), string(&mut c)),
            26 => Op::HashBuf(dataspec(&mut c)),
            _ => {
                let kind = match c.u8() % 6 {
                    0 => ReaderKind::Honest(1 + c.u16() as u32),
                    1 => ReaderKind::LiePlus { after: c.u8() % 3, extra: 1 + c.u16() as u32 },
                    2 => ReaderKind::LieMax { after: c.u8() % 3 },
                    3 => ReaderKind::ReportMoreThanWritten(c.u32()),
                    4 => ReaderKind::NoWrite(c.u32()),
                    _ => ReaderKind::AlternateErrors,
                };
                Op::HashStream(kind, dataspec(&mut c))
            }
        };
        ops.push(op);
    }
    let mut s = Sequence { variant, ops };
    sanitize(&mut s);
    s
}

/// `probe c17-corpus <dir> <n>`: seed corpus for the libFuzzer target (postcard-encoded sequences).
pub fn write_corpus(api: &dyn GlobalApi, dir: &str, n: usize) -> i32 {
    let ctx = Ctx::new(api, "C17", Tier::Quick, 0, vec![]);
    let _ = std::fs::create_dir_all(dir);
    for (i, mut s) in ctx.sample_values("corpus", n, &sequence_strategy()).into_iter().enumerate() {
        s.ops.truncate(8);
        sanitize(&mut s);
        if let Ok(b) = postcard::to_allocvec(&s) {
            if b.len() <= 2000 {
                let _ = std::fs::write(format!("{}/seq-{:02}", dir, i), b);
            }
        }
    }
    0
}

// ---------------------------------------------------------------- parent side

#[cfg(unix)]
fn signal_of(st: &std::process::ExitStatus) -> Option<i32> {
    use std::os::unix::process::ExitStatusExt;
    st.signal()
}

fn scratch() -> std::path::PathBuf {
    let d = std::env::var("VERIF_SCRATCH").unwrap_or_else(|_| "/verif/build/tmp".into());
    let _ = std::fs::create_dir_all(&d);
    std::path::PathBuf::from(d)
}

/// Runs a single sequence in a child; Ok(None) = fine, Ok(Some(msg)) = violation.
pub fn run_one_in_child(s: &Sequence) -> Result<Option<String>, String> {
    let exe = std::env::current_exe().map_err(|e| e.to_string())?;
    let path = scratch().join(format!("c17-one-{}-{:x}.json", std::process::id(), fnv(serde_json::to_string(s).unwrap().as_bytes())));
    std::fs::write(&path, serde_json::to_string(&json!({ "sequence": s })).unwrap()).map_err(|e| e.to_string())?;
    let out = std::process::Command::new(&exe).arg("c17-one").arg(&path).output().map_err(|e| e.to_string())?;
    let _ = std::fs::remove_file(&path);
    if let Some(sig) = signal_of(&out.status) {
        let err = String::from_utf8_lossy(&out.stderr);
        let tail: String = err.lines().rev().take(4).collect::<Vec<_>>().into_iter().rev().collect::<Vec<_>>().join(" | ");
        return Ok(Some(format!("the process died with signal {} while executing this sequence ({})", sig, tail)));
    }
    match out.status.code() {
        Some(0) => Ok(None),
        Some(1) => Ok(Some(String::from_utf8_lossy(&out.stdout).trim().to_string())),
        c => Err(format!("child exit {:?}", c)),
    }
}

/// Greedy one-op-at-a-time reduction of a crashing sequence (bounded number of child runs).
fn shrink_crash(s: &Sequence) -> Sequence {
    let mut cur = s.clone();
    let mut budget = 60;
    let mut i = 0;
    while i < cur.ops.len() && budget > 0 && cur.ops.len() > 1 {
        let mut cand = cur.clone();
        cand.ops.remove(i);
        budget -= 1;
        match run_one_in_child(&cand) {
            Ok(Some(m)) if m.contains("died with signal") => cur = cand,
            _ => i += 1,
        }
    }
    cur
}

fn run_sequences(ctx: &Ctx) -> CheckResult {
    let exe = std::env::current_exe().expect("current_exe");
    let (batches, count) = ctx.tier.pick((16u64, 300u32), (64, 1500));
    let dir = scratch();
    let tag = format!("{}-{}", std::process::id(), ctx.config.replace('@', "_"));
    let mut all_digests: Vec<u64> = Vec::new();
    let mut all_cases: Vec<String> = Vec::new();
    let jobs: Vec<u64> = (0..batches).collect();
    let seed = ctx.seed;
    struct Out {
        status: std::process::ExitStatus,
        report: Option<Value>,
        inflight: String,
        cases: String,
        stderr: String,
    }
    let outs = super::common::par_map(ctx.threads.min(8), &jobs, |&b| -> Out {
        let status = dir.join(format!("c17-{}-{}.status", tag, b));
        let out = dir.join(format!("c17-{}-{}.out", tag, b));
        let cases = dir.join(format!("c17-{}-{}.cases", tag, b));
        let o = std::process::Command::new(&exe)
            .arg("c17-batch")
            .args(["--seed", &seed.to_string(), "--batch", &b.to_string(), "--count", &count.to_string()])
            .arg("--status")
            .arg(&status)
            .arg("--out")
            .arg(&out)
            .arg("--cases")
            .arg(&cases)
            .output()
            .expect("spawn batch child");
        let report = std::fs::read_to_string(&out).ok().and_then(|t| serde_json::from_str(&t).ok());
        let inflight = std::fs::read_to_string(&status).unwrap_or_default();
        let cases_text = std::fs::read_to_string(&cases).unwrap_or_default();
        for p in [&status, &out, &cases] {
            let _ = std::fs::remove_file(p);
        }
        Out { status: o.status, report, inflight, cases: cases_text, stderr: String::from_utf8_lossy(&o.stderr).to_string() }
    });
    for (b, o) in outs.into_iter().enumerate() {
        if let Some(sig) = signal_of(&o.status) {
            // the in-flight sequence was saved before it was executed
            let s: Sequence = serde_json::from_str(&o.inflight).map_err(|e| ctx.violation("sequence", format!("batch {} died with signal {} and the in-flight case is unreadable: {}", b, sig, e), json!({})))?;
            let small = shrink_crash(&s);
            let tail: String = o.stderr.lines().rev().take(3).collect::<Vec<_>>().into_iter().rev().collect::<Vec<_>>().join(" | ");
            return Err(ctx.violation(
                "sequence",
                format!("the process died with signal {} inside a sequence of safe API calls ({})", sig, tail),
                json!({ "sequence": small }),
            ));
        }
        let Some(rep) = o.report else {
            panic!("batch {} produced no report (exit {:?}): {}", b, o.status, o.stderr);
        };
        // merge the child's evidence
        if let Some(e) = rep.get("evidence") {
            let mut ev = ctx.ev.borrow_mut();
            ev.evaluations += e["evaluations"].as_u64().unwrap_or(0);
            ev.nontrivial_enumerated += e["distinct_nontrivial"].as_u64().unwrap_or(0);
            if let Some(c) = e["classes"].as_object() {
                for (k, v) in c {
                    ev.class_n(k, v.as_u64().unwrap_or(0));
                }
            }
            if let Some(s) = e["samples"].as_array() {
                for x in s.iter().take(2) {
                    ev.sample(x.clone());
                }
            }
        }
        if let Some(v) = rep.get("violation") {
            if !v.is_null() {
                return Err(ctx.violation("sequence", v["message"].as_str().unwrap_or("").to_string(), v["case"].clone()));
            }
        }
        if let Some(d) = rep["digests"].as_array() {
            all_digests.extend(d.iter().map(|x| x.as_u64().unwrap_or(0)));
        }
        all_cases.extend(o.cases.lines().map(|l| l.to_string()));
    }
    ctx.subcheck("sequence", batches * count as u64);
    // transcripts for the driver's cross-configuration comparison
    let tdir = std::env::var("VERIF_TRANSCRIPT_DIR").ok();
    if let Some(td) = tdir {
        let _ = std::fs::create_dir_all(&td);
        let name = ctx.config.replace('@', "_");
        let _ = std::fs::write(format!("{}/c17-{}.digests.json", td, name), serde_json::to_string(&all_digests).unwrap());
        let _ = std::fs::write(format!("{}/c17-{}.cases.jsonl", td, name), all_cases.join("\n"));
    }
    ctx.note(format!("{} sequences in {} child processes; {} transcripts recorded", batches * count as u64, batches, all_digests.len()));
    Ok(())
}

/// All 2^32 lengths through `FuzzyHashLengthEncoding::new` / `try_from` in THIS build:
/// in the debug-assertion builds the three slice-bound `invariant!()`s are evaluated on every
/// input (a false one panics); in the `unsafe` builds a false one is undefined behaviour, which
/// shows as a crash or as a code different from the reference.
pub fn case_len(api: &dyn GlobalApi, n: u32) -> Result<(), String> {
    let got = catch(|| (api.len_new(n), api.len_try_from(n))).map_err(|p| format!("FuzzyHashLengthEncoding::new({}) panicked: {}", n, p))?;
    let want = vmodel::length_code(n as u64);
    if got.0 != want || got.1.ok() != want {
        return Err(format!("FuzzyHashLengthEncoding::new({}) = {:?}, try_from = {:?}, but the reference code is {:?}", n, got.0, got.1, want));
    }
    Ok(())
}

fn run_lensweep(ctx: &Ctx) -> CheckResult {
    let api = ctx.api;
    let caps = api.caps();
    // the sweep is about the invariants of `new()`: run it where they are evaluated (debug
    // assertions) or handed to the optimiser (feature unsafe), once per kind of build
    let dispatching = caps.features.iter().any(|f| f == "detect-features");
    if !(dispatching && (caps.debug_assertions || caps.unsafe_)) {
        ctx.skipped("lensweep: runs in default@dbg, unsafe@dbg and unsafe only");
        return Ok(());
    }
    const SHARDS: u64 = 64;
    const SHARD: u64 = (1u64 << 32) / SHARDS;
    const CHUNK: usize = 1 << 18;
    let shards: Vec<u64> = (0..SHARDS).collect();
    let bad = super::common::par_map(ctx.threads, &shards, |&s| -> Option<u32> {
        let mut buf = vec![0u16; CHUNK];
        let mut off = 0u64;
        while off < SHARD {
            let base = (s * SHARD + off) as u32;
            let ok = catch(|| api.len_sweep(base, &mut buf)).is_ok();
            let scan_individually = !ok
                || buf.iter().enumerate().any(|(i, &r)| {
                    let n = base.wrapping_add(i as u32);
                    let want = vmodel::length_code(n as u64);
                    r & 0x600 != 0 || (r & 0x100 != 0) != want.is_none() || (want.is_some() && (r & 0xff) as u8 != want.unwrap())
                });
            if scan_individually {
                for i in 0..CHUNK as u32 {
                    if case_len(api, base.wrapping_add(i)).is_err() {
                        return Some(base.wrapping_add(i));
                    }
                }
            }
            off += CHUNK as u64;
        }
        None
    });
    {
        let mut ev = ctx.ev.borrow_mut();
        ev.evaluations += 1u64 << 32;
        ev.nontrivial_enumerated += 1u64 << 32;
    }
    ctx.subcheck("lensweep", 1u64 << 32);
    if let Some(n) = bad.into_iter().flatten().next() {
        let m = case_len(api, n).err().unwrap_or_else(|| "did not reproduce".into());
        return Err(ctx.violation("lensweep", m, json!({ "n": n })));
    }
    ctx.exhaustive("all 2^32 lengths through FuzzyHashLengthEncoding::new / try_from in this build (invariants evaluated in @dbg builds)");
    Ok(())
}

pub fn replay(ctx: &Ctx, check: &str, case: &Value) -> Result<(), String> {
    if check == "lensweep" {
        return case_len(ctx.api, case.get("n").and_then(|x| x.as_u64()).ok_or("n")? as u32);
    }
    let s: Sequence = serde_json::from_value(case.get("sequence").cloned().ok_or("no sequence")?).map_err(|e| e.to_string())?;
    match run_one_in_child(&s)? {
        None => Ok(()),
        Some(m) => Err(m),
    }
}
