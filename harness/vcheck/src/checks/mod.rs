//! Dispatch of checks by property id.

use crate::api::GlobalApi;
use crate::ctx::{Ctx, Violation};
use serde_json::Value;

pub mod codec;
pub mod common;

macro_rules! props {
    ($($id:literal => $m:ident),* $(,)?) => {
        $(pub mod $m;)*
        fn subs(id: &str) -> Option<Vec<Sub>> {
            match id {
                $($id => Some($m::subs()),)*
                _ => None,
            }
        }
        fn replay_dispatch(ctx: &Ctx, id: &str, check: &str, case: &Value) -> Result<(), String> {
            match id {
                $($id => $m::replay(ctx, check, case),)*
                _ => panic!("unknown property id {}", id),
            }
        }
    };
}

props! {
    "C01" => c01,
    "C02" => c02,
    "C03" => c03,
    "C04" => c04,
    "C05" => c05,
    "C06" => c06,
    "C07" => c07,
    "C08" => c08,
    "C09" => c09,
    "C10" => c10,
    "C11" => c11,
    "C12" => c12,
    "C13" => c13,
    "C14" => c14,
    "C15" => c15,
    "C16" => c16,
    "C17" => c17,
    "C18" => c18,
}

pub type CheckResult = Result<(), Violation>;

/// A named sub-check of a property.
pub struct Sub {
    pub name: &'static str,
    pub run: fn(&Ctx) -> CheckResult,
}

pub fn run(ctx: &Ctx, id: &str, only: Option<&str>) -> CheckResult {
    let Some(subs) = subs(id) else {
        panic!("unknown property id {}", id);
    };
    for s in subs {
        if let Some(o) = only {
            if !o.split(',').any(|x| x == s.name) {
                continue;
            }
        }
        let t0 = std::time::Instant::now();
        // Safety net: a panic that escapes a sub-check (an operation under test that panicked
        // outside a generated-case wrapper, e.g. inside an exhaustive sweep) is a violation of
        // the operation's totality, not a harness failure.
        match crate::ctx::catch(|| (s.run)(ctx)) {
            Ok(r) => r?,
            Err(m) => {
                return Err(ctx.violation(
                    "subpanic",
                    format!("panic escaped from sub-check {}: {}", s.name, m),
                    serde_json::json!({"sub": s.name, "tier": if ctx.tier == crate::ctx::Tier::Quick { "quick" } else { "thorough" }}),
                ))
            }
        }
        ctx.note(format!("sub-check {} took {:.2}s", s.name, t0.elapsed().as_secs_f64()));
    }
    Ok(())
}

pub fn replay(ctx: &Ctx, v: &Value) -> CheckResult {
    let id = v.get("property").and_then(|x| x.as_str()).unwrap_or("");
    let check = v.get("check").and_then(|x| x.as_str()).unwrap_or("");
    let case = v.get("case").cloned().unwrap_or(Value::Null);
    if check == "subpanic" {
        // re-run the whole sub-check that panicked
        let sub = case.get("sub").and_then(|x| x.as_str()).unwrap_or("");
        return run(ctx, id, Some(sub));
    }
    match crate::ctx::catch(|| replay_dispatch(ctx, id, check, &case)) {
        Ok(Ok(())) => Ok(()),
        Ok(Err(m)) => Err(ctx.violation(check, m, case)),
        Err(m) => Err(ctx.violation(check, format!("panic: {}", m), case)),
    }
}

pub fn extra_command(api: &dyn GlobalApi, cmd: &str, args: &[String]) -> i32 {
    let num = |i: usize| -> u64 { args.get(i).and_then(|s| s.parse().ok()).unwrap_or(0) };
    match cmd {
        "c18-first" => return c18::firstcall_child(api, num(2) as usize, num(3)),
        "race" => return c07::race(api, num(2)),
        "c17-batch" => return c17::batch_child(api, args),
        "c17-one" => return c17::one_child(api, args),
        "c17-corpus" => return c17::write_corpus(api, args.get(2).map(|s| s.as_str()).unwrap_or("."), num(3) as usize),
        _ => {}
    }
    eprintln!("unknown command {:?}; use: caps | selftest | run <ID> [--tier T] [--seed N] [--out F] [--sub a,b] | replay <file>", cmd);
    2
}
