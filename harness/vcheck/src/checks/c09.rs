//! C09 — the length code is a monotone bucketing of the input length,
//! consistent with range().  All 2^32 lengths are enumerated.

use super::common::*;
use super::{CheckResult, Sub};
use crate::api::*;
use crate::ctx::Ctx;
use crate::gens::{self, DataSpec, Kind};
use serde_json::{json, Value};
use std::cell::Cell;

pub const MAX: u32 = 4_224_281_216;

pub fn subs() -> Vec<Sub> {
    vec![Sub { name: "codes", run: run_codes }, Sub { name: "sweep", run: run_sweep }, Sub { name: "generated", run: run_generated }]
}

/// Laws about the 256 codes: range() is Some <=> is_valid <=> code < 170; ranges tile 0..=MAX.
pub fn case_codes(api: &dyn GlobalApi) -> Result<Vec<Option<(u32, u32)>>, String> {
    let strict = api.caps().strict;
    let mut ranges = Vec::with_capacity(256);
    for c in 0..=255u8 {
        let r = api.len_range(c);
        let valid = api.len_is_valid(c);
        if r.is_some() != (c < 170) {
            return Err(format!("range() of code {} is {:?}; it must be Some exactly for codes below 170", c, r));
        }
        if valid != (c < 170) {
            return Err(format!("is_valid() of code {} is {}; it must be true exactly for codes below 170{}", c, valid, if strict { " (strict build: invalid codes cannot be constructed)" } else { "" }));
        }
        if let Some((lo, hi)) = r {
            if lo > hi {
                return Err(format!("range({}) = {}..={} is empty", c, lo, hi));
            }
        }
        ranges.push(r);
    }
    // tiling
    let mut expect_start: u64 = 0;
    for c in 0..170usize {
        let (lo, hi) = ranges[c].unwrap();
        if lo as u64 != expect_start {
            return Err(format!("range({}) starts at {} but the previous range ended at {} (gap or overlap)", c, lo, expect_start as i64 - 1));
        }
        expect_start = hi as u64 + 1;
    }
    if expect_start != MAX as u64 + 1 {
        return Err(format!("ranges of codes 0..169 end at {} instead of the maximum {}", expect_start - 1, MAX));
    }
    Ok(ranges)
}

fn run_codes(ctx: &Ctx) -> CheckResult {
    match case_codes(ctx.api) {
        Ok(r) => {
            let mut ev = ctx.ev.borrow_mut();
            ev.evaluations += 256;
            ev.nontrivial_enumerated += 256;
            ev.sample(json!({"check": "codes", "range(0)": r[0], "range(21)": r[21], "range(169)": r[169], "range(170)": r[170]}));
            drop(ev);
            ctx.exhaustive("all 256 length codes");
            Ok(())
        }
        Err(m) => Err(ctx.violation("codes", m, json!({}))),
    }
}

/// One length against the statement (used for replay and shard failures).
pub fn case_len(api: &dyn GlobalApi, n: u32, ranges: &[Option<(u32, u32)>]) -> Result<(), String> {
    let c = api.len_new(n);
    if c.is_some() != (n <= MAX) {
        return Err(format!("new({}) = {:?}; encoding must succeed exactly for lengths <= {}", n, c, MAX));
    }
    match (c, api.len_try_from(n)) {
        (Some(a), Ok(b)) if a == b => {}
        (None, Err(PErr::LengthIsTooLarge)) => {}
        (a, b) => return Err(format!("new({}) = {:?} but try_from = {:?}", n, a, b)),
    }
    if let Some(c) = c {
        match ranges[c as usize] {
            Some((lo, hi)) if lo <= n && n <= hi => {}
            r => return Err(format!("new({}) = {} but range({}) = {:?} does not contain it", n, c, c, r)),
        }
        if n > 0 {
            if let Some(p) = api.len_new(n - 1) {
                if p > c {
                    return Err(format!("code decreases: new({}) = {} > new({}) = {}", n - 1, p, n, c));
                }
            }
        }
    }
    Ok(())
}

fn run_sweep(ctx: &Ctx) -> CheckResult {
    let ranges = match case_codes(ctx.api) {
        Ok(r) => r,
        Err(m) => return Err(ctx.violation("codes", m, json!({}))),
    };
    let api = ctx.api;
    const SHARDS: u64 = 64;
    const SHARD: u64 = (1u64 << 32) / SHARDS;
    const CHUNK: usize = 1 << 18;
    let shards: Vec<u64> = (0..SHARDS).collect();
    struct ShardOut {
        first: u16,
        last: u16,
        counts: [u64; 256],
        bad: Option<u32>,
    }
    let outs = par_map(ctx.threads, &shards, |&s| {
        let mut buf = vec![0u16; CHUNK];
        let mut o = ShardOut { first: 0, last: 0, counts: [0; 256], bad: None };
        let start = s * SHARD;
        let mut prev: Option<u16> = None;
        let mut off = 0u64;
        while off < SHARD {
            let base = (start + off) as u32;
            if crate::ctx::catch(|| api.len_sweep(base, &mut buf)).is_err() {
                // an encoding call panicked somewhere in this chunk: locate the first such length
                for i in 0..CHUNK as u32 {
                    let n = base.wrapping_add(i);
                    if !matches!(crate::ctx::catch(|| case_len(api, n, &ranges)), Ok(Ok(()))) {
                        o.bad = Some(n);
                        break;
                    }
                }
                o.bad = o.bad.or(Some(base));
                o.last = 0;
                return o;
            }
            for (i, &r) in buf.iter().enumerate() {
                let n = base.wrapping_add(i as u32);
                let mut ok = r & 0x600 == 0;
                let none = r & 0x100 != 0;
                ok &= none == (n > MAX);
                if !none {
                    let c = (r & 0xff) as usize;
                    o.counts[c] += 1;
                    ok &= match ranges[c] {
                        Some((lo, hi)) => lo <= n && n <= hi,
                        None => false,
                    };
                    if let Some(p) = prev {
                        ok &= p & 0x100 == 0 && (p & 0xff) as usize <= c;
                    }
                } else if let Some(p) = prev {
                    // once None, always None above
                    ok &= p & 0x100 != 0 || n == MAX.wrapping_add(1);
                }
                if !ok && o.bad.is_none() {
                    o.bad = Some(n);
                }
                if prev.is_none() {
                    o.first = r;
                }
                prev = Some(r);
            }
            off += CHUNK as u64;
        }
        o.last = prev.unwrap();
        o
    });
    {
        let mut ev = ctx.ev.borrow_mut();
        ev.evaluations += 1u64 << 32;
        // n > 0 and n <= MAX, each integer visited once
        ev.nontrivial_enumerated += MAX as u64;
    }
    ctx.subcheck("sweep", 1u64 << 32);
    let fail = |n: u32| -> CheckResult {
        let m = match crate::ctx::catch(|| case_len(api, n, &ranges)) {
            Ok(r) => r.err(),
            Err(p) => Some(format!("encoding length {} panicked: {}", n, p)),
        }
        .unwrap_or_else(|| format!("length {} violates monotonicity/None-consistency with its predecessor", n));
        Err(ctx.violation("sweep", m, json!({ "n": n })))
    };
    for o in &outs {
        if let Some(n) = o.bad {
            return fail(n);
        }
    }
    // seams between shards
    for (i, w) in outs.windows(2).enumerate() {
        let (a, b) = (w[0].last, w[1].first);
        let ok = if a & 0x100 != 0 { b & 0x100 != 0 } else { b & 0x100 != 0 || (a & 0xff) <= (b & 0xff) };
        if !ok {
            return fail(((i as u64 + 1) * SHARD) as u32);
        }
    }
    // every n in range(c) encodes to c: the number of lengths mapped to c equals the width of range(c)
    let mut counts = [0u64; 256];
    for o in &outs {
        for c in 0..256 {
            counts[c] += o.counts[c];
        }
    }
    for c in 0..256usize {
        let width = ranges[c].map(|(lo, hi)| hi as u64 - lo as u64 + 1).unwrap_or(0);
        if counts[c] != width {
            return Err(ctx.violation(
                "sweep",
                format!("{} lengths encode to code {} but range({}) = {:?} has width {}", counts[c], c, c, ranges[c], width),
                json!({"n": ranges[c].map(|r| r.0).unwrap_or(0)}),
            ));
        }
    }
    ctx.exhaustive("all 2^32 lengths (encode, try_from, monotonicity, range membership, per-code counts)");
    ctx.ev.borrow_mut().sample(json!({"check": "sweep", "lengths": "0..2^32", "lengths_per_code_sample": {"0": counts[0], "21": counts[21], "169": counts[169]}}));
    ctx.ev.borrow_mut().class_n("lengths above the maximum (None)", (1u64 << 32) - 1 - MAX as u64);
    Ok(())
}

/// A generated hash carries the code of the number of bytes fed.
pub fn case_generated(ctx: &Ctx, va: &dyn VariantApi, n: usize, seed: u64, live: &Cell<bool>) -> Result<(), String> {
    let st = ctx.stats("generated", live);
    let v = va.v();
    let d = DataSpec { kind: Kind::Mixed, len: n, seed, explicit: None }.render();
    let mut g = va.generator();
    g.update(&d);
    st.eval();
    let h = g.finalize(Opts::from_index(Opts::PERMISSIVE_INDEX)).map_err(|e| format!("{}: {} bytes rejected under the most permissive options: {:?}", v.name, n, e))?;
    let want = ctx.api.len_new(n as u32);
    if Some(h.lvalue()) != want {
        return Err(format!("{}: hash of {} bytes carries length code {} but new({}) = {:?}", v.name, n, h.lvalue(), n, want));
    }
    // "a generated hash always carries the code of the number of bytes fed": under every option
    // setting that yields a hash (length mode, Q-ratio mode, the three waivers)
    for oi in 0..32 {
        st.eval();
        if let Ok(h) = g.finalize(Opts::from_index(oi)) {
            if Some(h.lvalue()) != want {
                return Err(format!("{}: hash of {} bytes under options {} carries length code {} but new({}) = {:?}", v.name, n, super::common::opt_name(oi), h.lvalue(), n, want));
            }
        }
    }
    if let Ok(h) = g.finalize_default() {
        if Some(h.lvalue()) != want {
            return Err(format!("{}: finalize() of {} bytes carries length code {} but new({}) = {:?}", v.name, n, h.lvalue(), n, want));
        }
    }
    if n > 0 {
        st.nontrivial(crate::ctx::fnv_mix(crate::ctx::fnv(v.name.as_bytes()), n as u64));
    }
    Ok(())
}

pub fn case_generated_state(va: &dyn VariantApi, api: &dyn GlobalApi, n: u32) -> Result<(), String> {
    let v = va.v();
    let spec = gens::StateSpec { buckets: gens::BucketClass::Plausible, len: gens::LenClass::Exact(n), seed: n as u64 ^ 0x5555 };
    let gs = spec.render(v);
    let g = va.gen_from_state(&gs).ok_or("no hooks")?;
    match (g.finalize(Opts::from_index(Opts::PERMISSIVE_INDEX)), api.len_new(n)) {
        (Ok(h), Some(c)) if h.lvalue() == c => {}
        (Err(GErr::TooLarge), None) => {}
        (r, c) => return Err(format!("{}: generator at {} bytes gives {:?} but new({}) = {:?}", v.name, n, r.map(|h| h.lvalue()), n, c)),
    }
    for oi in 0..32 {
        if let Ok(h) = g.finalize(Opts::from_index(oi)) {
            if Some(h.lvalue()) != api.len_new(n) {
                return Err(format!("{}: generator at {} bytes under options {} carries length code {} but new({}) = {:?}", v.name, n, super::common::opt_name(oi), h.lvalue(), n, api.len_new(n)));
            }
        }
    }
    Ok(())
}

fn run_generated(ctx: &Ctx) -> CheckResult {
    let live = Cell::new(true);
    let top = ctx.tier.pick(3000usize, 6000);
    let mut lens: Vec<usize> = (0..=top).collect();
    for &t in vmodel::TOPVAL.iter() {
        if (t as usize) < ctx.tier.pick(70_000, 1_100_000) && t as usize > top {
            lens.push(t as usize);
            lens.push(t as usize + 1);
        }
    }
    let vs = ctx.api.variants();
    for (i, &n) in lens.iter().enumerate() {
        // every variant for short lengths, rotating for the longer ones
        for (k, va) in vs.iter().enumerate() {
            if n > 600 && (i + k) % 5 != 0 {
                continue;
            }
            if let Err(m) = case_generated(ctx, *va, n, ctx.seed ^ n as u64, &live) {
                return Err(ctx.violation("generated", m, json!({"variant": va.v().name, "n": n, "seed": ctx.seed ^ n as u64})));
            }
        }
    }
    // one large slice (zeros, lazily mapped): 2^28 + 1000 bytes fed by ONE update and by hash_buf
    if ctx.config == "default" {
        let big = vec![0u8; (1usize << 28) + 1000];
        let res = super::common::par_map(ctx.threads, &vs, |va| -> Result<(), String> {
            let v = va.v();
            let want = ctx.api.len_new(big.len() as u32);
            let mut g = va.generator();
            g.update(&big);
            if g.processed_len() != Some(big.len() as u32) {
                return Err(format!("{}: processed_len() = {:?} after one update with {} bytes", v.name, g.processed_len(), big.len()));
            }
            for oi in 0..32 {
                if let Ok(h) = g.finalize(Opts::from_index(oi)) {
                    if Some(h.lvalue()) != want {
                        return Err(format!("{}: hash of one {}-byte slice under options {} carries length code {} but new({}) = {:?}", v.name, big.len(), super::common::opt_name(oi), h.lvalue(), big.len(), want));
                    }
                }
            }
            if g.finalize(Opts::from_index(Opts::PERMISSIVE_INDEX)).is_err() {
                return Err(format!("{}: {} bytes rejected under the most permissive options", v.name, big.len()));
            }
            Ok(())
        });
        ctx.ev.borrow_mut().evaluations += 33 * vs.len() as u64;
        for (va, r) in vs.iter().zip(res) {
            if let Err(m) = r {
                return Err(ctx.violation("bigslice", m, json!({"variant": va.v().name})));
            }
        }
    }
    ctx.subcheck("generated", lens.len() as u64);
    if ctx.api.caps().hooks {
        let rnd = ctx.sample_values("genstate", ctx.tier.pick(3000, 60_000), &proptest::prelude::any::<u32>());
        let mut ns: Vec<u32> = rnd.into_iter().enumerate().map(|(i, r)| (r >> (i % 20)).max(4)).collect();
        for &t in vmodel::TOPVAL.iter() {
            ns.extend([t.max(4), t.saturating_add(1).max(4)]);
        }
        for (i, &n) in ns.iter().enumerate() {
            let va = vs[i % 5];
            ctx.ev.borrow_mut().evaluations += 1;
            if let Err(m) = case_generated_state(va, ctx.api, n) {
                return Err(ctx.violation("generated_state", m, json!({"variant": va.v().name, "n": n})));
            }
        }
        ctx.subcheck("generated_state", ns.len() as u64);
    }
    ctx.exhaustive(format!("real data of every length 0..={}", top));
    ctx.ev.borrow_mut().sample(json!({"check": "generated", "lengths": lens.len(), "example_n": lens[lens.len() - 1]}));
    Ok(())
}

pub fn replay(ctx: &Ctx, check: &str, case: &Value) -> Result<(), String> {
    let live = Cell::new(true);
    let n = case.get("n").and_then(|x| x.as_u64()).unwrap_or(0);
    match check {
        "codes" => case_codes(ctx.api).map(|_| ()),
        "sweep" => {
            let r = case_codes(ctx.api)?;
            case_len(ctx.api, n as u32, &r)?;
            if n as u32 != u32::MAX {
                case_len(ctx.api, n as u32 + 1, &r)?;
            }
            Ok(())
        }
        "generated" => {
            let va = super::codec::variant_of(ctx.api, case)?;
            case_generated(ctx, va, n as usize, case.get("seed").and_then(|x| x.as_u64()).unwrap_or(0), &live)
        }
        "bigslice" => Err("re-run the quick tier: the case is deterministic".to_string()).or_else(|_: String| run_generated(ctx).map_err(|v| v.message)),
        "generated_state" => case_generated_state(super::codec::variant_of(ctx.api, case)?, ctx.api, n as u32),
        _ => Err(format!("unknown check {}", check)),
    }
}
