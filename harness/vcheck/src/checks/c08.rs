//! C08 — distance is reflexive, symmetric and bounded by max_distance;
//! mode and checksum decomposition.  Algebraic laws: no oracle needed.

use super::common::*;
use super::{CheckResult, Sub};
use crate::api::*;
use crate::ctx::{fnv, fnv_mix, hex, unhex, CaseStats, Ctx};
use crate::gens;
use serde_json::{json, Value};
use std::cell::Cell;

pub fn subs() -> Vec<Sub> {
    vec![Sub { name: "laws", run: run_laws }, Sub { name: "bitflips", run: run_bitflips }, Sub { name: "witness", run: run_witness }]
}

fn mk(va: &dyn VariantApi, b: &[u8]) -> Result<H, String> {
    va.try_from_array(b).map_err(|e| format!("{}: TryFrom rejected {} with {:?}", va.v().name, hex(b), e))
}

pub fn case_laws(va: &dyn VariantApi, a: &[u8], b: &[u8], st: &CaseStats) -> Result<(), String> {
    let v = va.v();
    let (ha, hb) = (mk(va, a)?, mk(va, b)?);
    let ctxs = format!("{} a={} b={}", v.name, hex(a), hex(b));
    let parts = ha.compare_parts(hb.as_ref());
    let mut dist = [0u32; 2];
    for (mi, no_length) in [false, true].into_iter().enumerate() {
        let mode = if no_length { "NoLength" } else { "Default" };
        st.eval();
        if ha.compare(ha.as_ref(), no_length) != 0 || hb.compare(hb.as_ref(), no_length) != 0 {
            return Err(format!("reflexivity: d(x,x) != 0 in mode {} ({})", mode, ctxs));
        }
        let dab = ha.compare(hb.as_ref(), no_length);
        let dba = hb.compare(ha.as_ref(), no_length);
        if dab != dba {
            return Err(format!("symmetry: d(a,b)={} != d(b,a)={} in mode {} ({})", dab, dba, mode, ctxs));
        }
        let mx = va.max_distance(no_length);
        if dab > mx {
            return Err(format!("bound: d(a,b)={} > max_distance({})={} ({})", dab, mode, mx, ctxs));
        }
        dist[mi] = dab;
    }
    if dist[0] != dist[1] + parts[3] {
        return Err(format!("mode decomposition: d_Default={} != d_NoLength={} + length distance {} ({})", dist[0], dist[1], parts[3], ctxs));
    }
    if dist[0] < dist[1] {
        return Err(format!("d_Default < d_NoLength ({})", ctxs));
    }
    if dist[0] == 0 && (a != b || !ha.equals(hb.as_ref())) {
        return Err(format!("identity of indiscernibles: d_Default(a,b)=0 but a != b ({})", ctxs));
    }
    if a == b && !ha.equals(hb.as_ref()) {
        return Err(format!("equal bytes give unequal hashes ({})", ctxs));
    }
    // clearing both checksums lowers the distance by exactly the checksum distance
    let (mut ca, mut cb) = (ha.boxed_clone(), hb.boxed_clone());
    ca.clear_checksum();
    cb.clear_checksum();
    let differing = a[..v.ck].iter().zip(&b[..v.ck]).filter(|(x, y)| x != y).count() as u32;
    if parts[1] != differing {
        return Err(format!("checksum distance {} != number of differing checksum bytes {} ({})", parts[1], differing, ctxs));
    }
    for (mi, no_length) in [false, true].into_iter().enumerate() {
        st.eval();
        let dc = ca.compare(cb.as_ref(), no_length);
        if dc + differing != dist[mi] {
            return Err(format!(
                "checksum decomposition: d(clear(a),clear(b))={} != d(a,b)={} - {} differing checksum bytes ({})",
                dc, dist[mi], differing, ctxs
            ));
        }
    }
    // the laws hold whichever body-distance backend is selected (every compiled one, by hook):
    // zero on identical bodies, symmetric, at most 6 per bucket
    let (ba, bb) = (&a[v.ck + 2..], &b[v.ck + 2..]);
    for be in DIST_BACKENDS {
        if let (Some(dab), Some(dba), Some(daa)) = (va.body_distance_by(be, ba, bb), va.body_distance_by(be, bb, ba), va.body_distance_by(be, ba, ba)) {
            st.eval();
            if daa != 0 || dab != dba || dab > 6 * v.buckets as u32 || (dab == 0) != (ba == bb) {
                return Err(format!("body distance backend {:?}: d(a,a)={}, d(a,b)={}, d(b,a)={}, bound {} ({})", be, daa, dab, dba, 6 * v.buckets, ctxs));
            }
        }
    }
    // non-trivial: differing in at least two of the four parts
    let differing_parts = parts.iter().filter(|&&x| x > 0).count();
    if differing_parts >= 2 {
        st.nontrivial(fnv_mix(fnv_mix(fnv(v.name.as_bytes()), fnv(a)), fnv(b)));
    }
    st.class(&format!("parts differing: {}", differing_parts));
    Ok(())
}

fn run_laws(ctx: &Ctx) -> CheckResult {
    let cases = ctx.tier.pick(20_000u32, 300_000);
    for va in ctx.api.variants() {
        let v = va.v();
        ctx.pt_run(
            "laws",
            &format!("laws/{}", v.name),
            cases,
            gens::hash_pair_strategy(v),
            |(a, b): &(Vec<u8>, Vec<u8>)| json!({"variant": v.name, "a": hex(a), "b": hex(b)}),
            |(a, b): &(Vec<u8>, Vec<u8>), st: &CaseStats| {
                st.sample(|| json!({"check": "laws", "variant": v.name, "a": hex(a), "b": hex(b)}));
                case_laws(va, a, b, st)
            },
        )?;
    }
    Ok(())
}

pub fn case_bitflips(va: &dyn VariantApi, a: &[u8], st: &CaseStats) -> Result<(), String> {
    let v = va.v();
    let ha = mk(va, a)?;
    for bit in 0..a.len() * 8 {
        let mut b = a.to_vec();
        b[bit / 8] ^= 1 << (bit % 8);
        let hb = mk(va, &b)?;
        st.eval();
        let d = ha.compare(hb.as_ref(), false);
        if d == 0 {
            return Err(format!("{}: d_Default(a, a^bit{})=0 although the hashes differ (a={})", v.name, bit, hex(a)));
        }
        if d != hb.compare(ha.as_ref(), false) {
            return Err(format!("{}: asymmetric on single-bit neighbour bit {} (a={})", v.name, bit, hex(a)));
        }
        if d > va.max_distance(false) {
            return Err(format!("{}: neighbour distance above max (a={})", v.name, hex(a)));
        }
        if ha.equals(hb.as_ref()) {
            return Err(format!("{}: hashes with different bytes compare equal (bit {}, a={})", v.name, bit, hex(a)));
        }
    }
    st.nontrivial(fnv_mix(fnv(v.name.as_bytes()), fnv(a)));
    Ok(())
}

fn run_bitflips(ctx: &Ctx) -> CheckResult {
    let cases = ctx.tier.pick(150u32, 2500);
    for va in ctx.api.variants() {
        let v = va.v();
        ctx.pt_run(
            "bitflips",
            &format!("bitflips/{}", v.name),
            cases,
            gens::hash_bytes_strategy(v),
            |a: &Vec<u8>| json!({"variant": v.name, "a": hex(a)}),
            |a: &Vec<u8>, st: &CaseStats| {
                st.sample(|| json!({"check": "bitflips", "variant": v.name, "a": hex(a), "neighbours": a.len() * 8}));
                case_bitflips(va, a, st)
            },
        )?;
    }
    ctx.exhaustive("all single-bit neighbours of each sampled hash");
    Ok(())
}

/// The bound is attained, and equals the formula of the property's mechanism.
/// An extremal pair: every part at its largest distance (256 of them per variant).
pub fn witness_pair(v: vmodel::Variant, fill: u8) -> (Vec<u8>, Vec<u8>) {
    let n = v.size();
    // body x vs !x where every dibit pair is (0,3) or (3,0): fill with dibits in {0,3}
    let spread = |bits: u8| -> u8 {
        // each of 4 bits selects dibit 00 or 11
        let mut o = 0u8;
        for i in 0..4 {
            if bits >> i & 1 == 1 {
                o |= 3 << (2 * i);
            }
        }
        o
    };
    let mut a = vec![spread(fill & 15); n];
    let mut b: Vec<u8> = a.iter().map(|x| !x).collect();
    // checksum bytes all different (valid for the 48-bucket strict gate: <= 48)
    for k in 0..v.ck {
        a[k] = k as u8;
        b[k] = k as u8 + 10;
    }
    // length codes at ring distance 128, both valid (< 170)
    a[v.ck] = fill % 42;
    b[v.ck] = a[v.ck] + 128;
    // Q ratios at ring distance 8 each
    let q = fill & 7;
    a[v.ck + 1] = q | (q << 4);
    b[v.ck + 1] = (q + 8) | ((q + 8) << 4);
    (a, b)
}

pub fn case_witness(va: &dyn VariantApi, fill: u8, st: &CaseStats) -> Result<(), String> {
    let v = va.v();
    let (a, b) = witness_pair(v, fill);
    let (ha, hb) = (mk(va, &a)?, mk(va, &b)?);
    for no_length in [false, true] {
        st.eval();
        let mx = va.max_distance(no_length);
        let formula = v.max_distance(no_length);
        if mx != formula {
            return Err(format!("{}: max_distance({}) = {} but 6*buckets + checksum bytes + 2*7*12 (+128*12) = {}", v.name, no_length, mx, formula));
        }
        let d = ha.compare(hb.as_ref(), no_length);
        if d != mx {
            return Err(format!("{}: extremal witness has distance {} != max_distance = {} (a={}, b={})", v.name, d, mx, hex(&a), hex(&b)));
        }
    }
    // the bound is attained whichever body-distance backend the build (or the CPU) selects:
    // every compiled backend (hook) gives 6 per bucket on the witness bodies, in both orders
    let (ba, bb) = (&a[v.ck + 2..], &b[v.ck + 2..]);
    for be in DIST_BACKENDS {
        for (x, y) in [(ba, bb), (bb, ba)] {
            if let Some(d) = va.body_distance_by(be, x, y) {
                st.eval();
                if d != 6 * v.buckets as u32 {
                    return Err(format!("{}: body distance of the extremal witness by backend {:?} = {} != 6 * {} (a={}, b={})", v.name, be, d, v.buckets, hex(x), hex(y)));
                }
            }
        }
    }
    st.nontrivial(fnv_mix(fnv(v.name.as_bytes()), fill as u64));
    Ok(())
}

fn run_witness(ctx: &Ctx) -> CheckResult {
    let live = Cell::new(true);
    let st = ctx.stats("witness", &live);
    for va in ctx.api.variants() {
        for fill in 0..=255u8 {
            if let Err(m) = case_witness(va, fill, &st) {
                return Err(ctx.violation("witness", m, json!({"variant": va.v().name, "fill": fill})));
            }
        }
        st.sample(|| json!({"check": "witness", "variant": va.v().name, "max_default": va.max_distance(false), "max_nolength": va.max_distance(true)}));
    }
    ctx.subcheck("witness", 5 * 256);
    Ok(())
}

pub fn replay(ctx: &Ctx, check: &str, case: &Value) -> Result<(), String> {
    let live = Cell::new(true);
    let st = ctx.stats("replay", &live);
    let name = case.get("variant").and_then(|x| x.as_str()).ok_or("no variant")?;
    let va = variant_by_name(ctx.api, name).ok_or("unknown variant")?;
    let g = |k: &str| case.get(k).and_then(|x| x.as_str()).map(unhex);
    match check {
        "laws" => case_laws(va, &g("a").ok_or("a")?, &g("b").ok_or("b")?, &st),
        "bitflips" => case_bitflips(va, &g("a").ok_or("a")?, &st),
        "witness" => case_witness(va, case.get("fill").and_then(|x| x.as_u64()).ok_or("fill")? as u8, &st),
        _ => Err(format!("unknown check {}", check)),
    }
}
