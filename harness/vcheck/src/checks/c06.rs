//! C06 — binary form round-trips; binary, hex and accessors describe the same parts.

use super::codec::*;
use super::{CheckResult, Sub};
use crate::api::Opts;
use crate::ctx::{hex, CaseStats, Ctx};
use crate::gens::{self, DataSpec};
use proptest::prelude::*;
use serde_json::{json, Value};
use std::cell::Cell;

pub fn subs() -> Vec<Sub> {
    vec![
        Sub { name: "binary", run: run_binary },
        Sub { name: "sweep", run: run_sweep },
        Sub { name: "slices", run: run_slices },
        Sub { name: "generated", run: run_generated },
    ]
}

/// In a strict-parser build only arrays that pass the two strict gates are in the domain of the
/// conversions (what the gates reject, and with which error, is C15's subject): out-of-domain
/// arrays are mapped into the domain (checksum byte mod 49 on the 48-bucket variant, length
/// code mod 170) so that no case is discarded.
fn into_domain(v: vmodel::Variant, strict: bool, b: &[u8]) -> Vec<u8> {
    let mut b = b.to_vec();
    if strict {
        if v.buckets == 48 {
            b[0] %= 49;
        }
        b[v.ck] %= 170;
    }
    b
}

fn run_binary(ctx: &Ctx) -> CheckResult {
    let strict = ctx.api.caps().strict;
    let cases = ctx.tier.pick(5_000u32, 100_000);
    for va in ctx.api.variants() {
        let v = va.v();
        ctx.pt_run(
            "binary",
            &format!("binary/{}", v.name),
            cases,
            gens::hash_bytes_strategy(v),
            |b: &Vec<u8>| json!({"variant": v.name, "bytes": hex(&into_domain(v, strict, b))}),
            |b: &Vec<u8>, st: &CaseStats| {
                let b = &into_domain(v, strict, b);
                st.sample(|| json!({"check": "binary", "variant": v.name, "bytes": hex(b)}));
                case_binary(va, b, st)
            },
        )?;
    }
    Ok(())
}

fn run_sweep(ctx: &Ctx) -> CheckResult {
    let live = Cell::new(true);
    let st = ctx.stats("sweep", &live);
    for va in ctx.api.variants() {
        let v = va.v();
        let bgs = ctx.sample_values(&format!("sweepbg/{}", v.name), ctx.tier.pick(1, 4), &proptest::collection::vec(any::<u8>(), v.size()));
        for bg in bgs {
            for pos in 0..v.size() {
                for x in 0..=255u8 {
                    let mut b = bg.clone();
                    b[pos] = x;
                    let b = into_domain(v, ctx.api.caps().strict, &b);
                    if let Err(m) = case_binary(va, &b, &st) {
                        return Err(ctx.violation("binary", m, json!({"variant": v.name, "bytes": hex(&b)})));
                    }
                }
            }
        }
    }
    ctx.exhaustive("every byte position x every byte value of the binary form on random backgrounds");
    Ok(())
}

fn run_slices(ctx: &Ctx) -> CheckResult {
    let live = Cell::new(true);
    let st = ctx.stats("slices", &live);
    let strict = ctx.api.caps().strict;
    for va in ctx.api.variants() {
        let v = va.v();
        let mut pool = ctx.sample_values(&format!("slicepool/{}", v.name), ctx.tier.pick(3, 20), &proptest::collection::vec(any::<u8>(), 2 * v.size() + 5));
        // structured contents a lenient conversion could mistake for a hash: the text forms of a
        // value (both prefixes, both cases), a value twice, a value followed by padding, digits only
        for mut base in ctx.sample_values(&format!("slicebase/{}", v.name), ctx.tier.pick(2, 8), &proptest::collection::vec(any::<u8>(), v.size())) {
            if strict {
                base[0] %= 49;
                base[v.ck] %= 170;
            }
            for with in [false, true] {
                let t = vmodel::text::encode(v, &base, with);
                pool.push(t.to_ascii_lowercase());
                pool.push(t);
            }
            pool.push([&base[..], &base[..]].concat());
            pool.push([&base[..], &vec![0u8; v.size() + 4][..]].concat());
            pool.push([&vec![0u8; 4][..], &base[..]].concat());
        }
        pool.push(vec![b'0'; 2 * v.size() + 4]);
        for p in pool {
            for len in 0..=p.len() {
                for piece in [&p[..len], &p[p.len() - len..]] {
                    if let Err(m) = case_slice_len(va, piece, strict, &st) {
                        return Err(ctx.violation("slices", m, json!({"variant": v.name, "bytes": hex(piece)})));
                    }
                }
            }
            ctx.ev.borrow_mut().nontrivial_enumerated += 2 * p.len() as u64;
        }
        st.sample(|| json!({"check": "slices", "variant": v.name, "lengths": format!("0..={}", 2 * v.size() + 4)}));
    }
    // slice lengths that do not fit in 32 bits (default configuration only in the quick tier): a
    // lazily mapped slab that starts with a valid binary form, then zeros
    if ctx.tier != crate::ctx::Tier::Quick || ctx.config == "default" {
        let mut slab = vec![0u8; (1usize << 32) + 512];
        for va in ctx.api.variants() {
            let v = va.v();
            let mut base = ctx.sample_values(&format!("hugeslice/{}", v.name), 1, &proptest::collection::vec(any::<u8>(), v.size())).remove(0);
            base[0] %= 49;
            base[v.ck] %= 170;
            slab[..v.size()].copy_from_slice(&base);
            for l in [v.size(), 0, 1, 2 * v.size(), 2 * v.size() + 2] {
                let piece = &slab[..(1usize << 32) + l];
                if let Err(m) = case_slice_len(va, piece, strict, &st) {
                    return Err(ctx.violation("slices-huge", format!("{} [slice of 2^32 + {} bytes starting with a valid binary form]", m, l), json!({"variant": v.name, "bytes": hex(&base), "l": l})));
                }
            }
            slab[..v.size()].fill(0);
            ctx.ev.borrow_mut().nontrivial_enumerated += 5;
        }
    }
    ctx.exhaustive("all slice lengths 0..=2N+4 (prefixes and suffixes of random bytes, of the text forms of a value, of a value twice / padded)");
    Ok(())
}

/// Hashes that come from the generator and from the text parser go through the same checks.
fn run_generated(ctx: &Ctx) -> CheckResult {
    let cases = ctx.tier.pick(1200u32, 12_000);
    for va in ctx.api.variants() {
        let v = va.v();
        ctx.pt_run(
            "generated",
            &format!("generated/{}", v.name),
            cases,
            gens::data_strategy(v, 3000),
            |d: &DataSpec| json!({"variant": v.name, "data": d.to_json()}),
            |d: &DataSpec, st: &CaseStats| {
                let mut g = va.generator();
                g.update(&d.render());
                if let Ok(h) = g.finalize(Opts::from_index(Opts::PERMISSIVE_INDEX)) {
                    let b = store_vec(h.as_ref(), v.size())?;
                    case_binary(va, &b, st)?;
                    let again = va.try_from_slice(&b).map_err(|e| format!("{}: try_from(store(generated)) failed: {:?}", v.name, e))?;
                    if !again.equals(h.as_ref()) {
                        return Err(format!("{}: try_from(store(h)) != h for generated {}", v.name, h.display()));
                    }
                    let parsed = va.from_str(&h.display()).map_err(|e| format!("{}: parse(display(generated)) failed: {:?}", v.name, e))?;
                    if !parsed.equals(h.as_ref()) {
                        return Err(format!("{}: parse(display(h)) != h for generated {}", v.name, h.display()));
                    }
                }
                Ok(())
            },
        )?;
    }
    Ok(())
}

pub fn replay(ctx: &Ctx, check: &str, case: &Value) -> Result<(), String> {
    let live = Cell::new(true);
    let st = ctx.stats("replay", &live);
    let va = variant_of(ctx.api, case)?;
    match check {
        "binary" | "sweep" => case_binary(va, &bytes_of(case, "bytes")?, &st),
        "slices" => case_slice_len(va, &bytes_of(case, "bytes")?, ctx.api.caps().strict, &st),
        "slices-huge" => {
            let mut slab = vec![0u8; (1usize << 32) + 512];
            let base = bytes_of(case, "bytes")?;
            slab[..base.len()].copy_from_slice(&base);
            let l = case.get("l").and_then(|x| x.as_u64()).unwrap_or(0) as usize;
            case_slice_len(va, &slab[..(1usize << 32) + l.min(512)], ctx.api.caps().strict, &st)
        }
        "generated" => {
            let d = DataSpec::from_json(case.get("data").ok_or("no data")?).ok_or("bad data")?;
            let mut g = va.generator();
            g.update(&d.render());
            match g.finalize(Opts::from_index(Opts::PERMISSIVE_INDEX)) {
                Ok(h) => case_binary(va, &store_vec(h.as_ref(), va.v().size())?, &st),
                Err(_) => Ok(()),
            }
        }
        _ => Err(format!("unknown check {}", check)),
    }
}
