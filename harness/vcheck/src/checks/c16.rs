//! C16 — serde: canonical encodings, lossless round trip, malformed input is an error.

use super::codec::store_vec;
use super::{CheckResult, Sub};
use crate::api::*;
use crate::ctx::{catch, fnv, fnv_mix, hex, CaseStats, Ctx};
use crate::gens::{self, TextSpec};
use crate::mockserde::{DeEvent, DeScript};
use proptest::collection::vec;
use proptest::prelude::*;
use serde_json::{json, Value};
use std::cell::Cell;

pub fn subs() -> Vec<Sub> {
    vec![
        Sub { name: "roundtrip", run: run_roundtrip },
        Sub { name: "json", run: run_json },
        Sub { name: "cbor", run: run_cbor },
        Sub { name: "postcard", run: run_postcard },
        Sub { name: "mock", run: run_mock },
    ]
}

/// Makes arbitrary bytes acceptable to the strict gates (so that a hash value exists).
fn validify(v: vmodel::Variant, b: &mut [u8], strict: bool) {
    if strict {
        if v.buckets == 48 {
            b[0] %= 49;
        }
        b[v.ck] %= 170;
    }
}

fn cbor_bytes_header(n: usize) -> Vec<u8> {
    if n < 24 {
        vec![0x40 | n as u8]
    } else if n < 256 {
        vec![0x58, n as u8]
    } else {
        vec![0x59, (n >> 8) as u8, n as u8]
    }
}

fn varint(mut n: u64) -> Vec<u8> {
    let mut o = Vec::new();
    loop {
        let b = (n & 0x7f) as u8;
        n >>= 7;
        if n == 0 {
            o.push(b);
            return o;
        }
        o.push(b | 0x80);
    }
}

pub fn case_roundtrip(va: &dyn VariantApi, bytes: &[u8], st: &CaseStats) -> Result<(), String> {
    let v = va.v();
    let h = va.try_from_array(bytes).map_err(|e| format!("{}: TryFrom rejected {} with {:?}", v.name, hex(bytes), e))?;
    let text = h.to_string_();
    // JSON: exactly the quoted "T1" hex string
    let j = va.to_json(h.as_ref()).ok_or("serde not compiled")?.map_err(|e| format!("{}: to_json failed: {}", v.name, e))?;
    st.eval();
    if j != format!("\"{}\"", text) {
        return Err(format!("{}: serde_json::to_string(h) = {} but to_string(h) = {}", v.name, j, text));
    }
    match catch(|| va.from_json(j.as_bytes()).unwrap()).map_err(|p| format!("{}: from_json panicked: {}", v.name, p))? {
        Ok(h2) if h2.equals(h.as_ref()) => {}
        other => return Err(format!("{}: JSON round trip of {} gave {:?}", v.name, text, other.map(|x| x.display()))),
    }
    // CBOR: byte-string header + binary form
    let c = va.to_cbor(h.as_ref()).unwrap().map_err(|e| format!("{}: to_cbor failed: {}", v.name, e))?;
    let mut want = cbor_bytes_header(v.size());
    want.extend_from_slice(bytes);
    st.eval();
    if c != want {
        return Err(format!("{}: CBOR encoding {} != byte string of the binary form {}", v.name, hex(&c), hex(&want)));
    }
    match catch(|| va.from_cbor(&c).unwrap()).map_err(|p| format!("{}: from_cbor panicked: {}", v.name, p))? {
        Ok(h2) if h2.equals(h.as_ref()) => {}
        other => return Err(format!("{}: CBOR round trip of {} gave {:?}", v.name, text, other.map(|x| x.display()))),
    }
    // postcard: varint(N) + binary form
    let p = va.to_postcard(h.as_ref()).unwrap().map_err(|e| format!("{}: to_postcard failed: {}", v.name, e))?;
    let mut want = varint(v.size() as u64);
    want.extend_from_slice(bytes);
    st.eval();
    if p != want {
        return Err(format!("{}: postcard encoding {} != varint(N) + binary form {}", v.name, hex(&p), hex(&want)));
    }
    match catch(|| va.from_postcard(&p).unwrap()).map_err(|p| format!("{}: from_postcard panicked: {}", v.name, p))? {
        Ok(h2) if h2.equals(h.as_ref()) => {}
        other => return Err(format!("{}: postcard round trip of {} gave {:?}", v.name, text, other.map(|x| x.display()))),
    }
    // what the Serialize impl sends to any serializer
    st.eval();
    match va.mock_ser(h.as_ref(), true).unwrap() {
        SerRecord::Str(s) if s == text => {}
        other => return Err(format!("{}: human-readable serializer received {:?} instead of the string {}", v.name, other, text)),
    }
    match va.mock_ser(h.as_ref(), false).unwrap() {
        SerRecord::Bytes(b) if b == bytes => {}
        other => return Err(format!("{}: compact serializer received {:?} instead of the bytes {}", v.name, other, hex(bytes))),
    }
    st.nontrivial(fnv_mix(fnv(v.name.as_bytes()), fnv(bytes)));
    Ok(())
}

fn run_roundtrip(ctx: &Ctx) -> CheckResult {
    let strict = ctx.api.caps().strict;
    let cases = ctx.tier.pick(3000u32, 60_000);
    for va in ctx.api.variants() {
        let v = va.v();
        ctx.pt_run(
            "roundtrip",
            &format!("roundtrip/{}", v.name),
            cases,
            gens::hash_bytes_strategy(v),
            |b: &Vec<u8>| {
                let mut b = b.clone();
                validify(v, &mut b, strict);
                json!({"variant": v.name, "bytes": hex(&b)})
            },
            |b: &Vec<u8>, st: &CaseStats| {
                let mut b = b.clone();
                validify(v, &mut b, strict);
                st.sample(|| json!({"check": "roundtrip", "variant": v.name, "bytes": hex(&b)}));
                case_roundtrip(va, &b, st)
            },
        )?;
    }
    Ok(())
}

// ---------------------------------------------------------------- JSON documents

#[derive(Debug, Clone, PartialEq, serde::Serialize, serde::Deserialize)]
pub enum JDoc {
    /// a JSON string with this content
    Str(String),
    /// any other JSON value
    Other(Value),
    /// raw (possibly invalid) JSON text
    Raw(String),
}

pub fn case_json(va: &dyn VariantApi, d: &JDoc, st: &CaseStats) -> Result<(), String> {
    let v = va.v();
    let doc = match d {
        JDoc::Str(s) => serde_json::to_string(&Value::String(s.clone())).unwrap(),
        JDoc::Other(x) => serde_json::to_string(x).unwrap(),
        JDoc::Raw(r) => r.clone(),
    };
    st.eval();
    let got = catch(|| va.from_json(doc.as_bytes()).unwrap()).map_err(|p| format!("{}: deserializing the JSON document {} panicked: {}", v.name, doc, p))?;
    match d {
        JDoc::Str(s) => {
            let want = va.from_str_bytes(s.as_bytes(), None);
            match (got, want) {
                (Ok(a), Ok(b)) if a.equals(b.as_ref()) => st.class("json: string accepted"),
                (Err(_), Err(_)) => st.class("json: string rejected"),
                (g, w) => {
                    return Err(format!(
                        "{}: JSON string {} deserializes to {:?} but the text parser gives {:?}",
                        v.name,
                        doc,
                        g.map(|h| h.display()),
                        w.map(|h| h.display())
                    ))
                }
            }
            st.nontrivial(fnv_mix(fnv(v.name.as_bytes()), fnv(doc.as_bytes())));
        }
        JDoc::Other(x) => {
            if x.is_string() {
                return Ok(());
            }
            if let Ok(h) = got {
                return Err(format!("{}: the JSON document {} (not a string) deserialized to {}", v.name, doc, h.display()));
            }
            st.class("json: wrong type rejected");
        }
        JDoc::Raw(_) => {
            // may or may not be valid JSON: if it is accepted it must be a string the parser accepts
            if let Ok(h) = got {
                let ok = serde_json::from_str::<Value>(&doc).ok().and_then(|x| x.as_str().map(|s| s.to_string())).map(|s| match va.from_str_bytes(s.as_bytes(), None) {
                    Ok(w) => w.equals(h.as_ref()),
                    Err(_) => false,
                });
                if ok != Some(true) {
                    return Err(format!("{}: raw JSON text {:?} deserialized to {}", v.name, doc, h.display()));
                }
            }
            st.class("json: raw text");
        }
    }
    Ok(())
}

fn json_value() -> impl Strategy<Value = Value> {
    let leaf = prop_oneof![
        Just(Value::Null),
        any::<bool>().prop_map(Value::Bool),
        any::<i64>().prop_map(|x| json!(x)),
        any::<u64>().prop_map(|x| json!(x)),
        (-1e9f64..1e9).prop_map(|x| json!(x)),
        "[a-fA-F0-9T]{0,80}".prop_map(Value::String),
    ];
    leaf.prop_recursive(3, 24, 6, |inner| {
        prop_oneof![
            vec(inner.clone(), 0..6).prop_map(Value::Array),
            vec(("[a-z]{0,5}", inner), 0..4).prop_map(|kv| Value::Object(kv.into_iter().collect())),
            vec(any::<u8>(), 0..80).prop_map(|b| Value::Array(b.into_iter().map(|x| json!(x)).collect())),
        ]
    })
}

fn jdoc_strategy(v: vmodel::Variant, strict: bool) -> impl Strategy<Value = JDoc> {
    let s = (gens::text_strategy(v), any::<u8>(), any::<u8>()).prop_map(move |(mut t, c, l): (TextSpec, u8, u8)| {
        if t.raw.is_none() && strict && c % 3 != 0 {
            t.base[0] = c % 49;
            t.base[v.ck] = l % 170;
        }
        JDoc::Str(String::from_utf8_lossy(&t.render(v)).into_owned())
    });
    let raw = (gens::text_strategy(v), 0usize..6).prop_map(move |(t, k)| {
        let s = String::from_utf8_lossy(&t.render(v)).into_owned();
        JDoc::Raw(match k {
            0 => format!("\"{}", s),
            1 => format!("{}\"", s),
            2 => format!("[\"{}\"]", s),
            3 => format!("\"{}\" x", s),
            4 => format!(" \"{}\" ", s),
            _ => s,
        })
    });
    prop_oneof![5 => s, 3 => json_value().prop_map(JDoc::Other), 2 => raw]
}

fn run_json(ctx: &Ctx) -> CheckResult {
    let strict = ctx.api.caps().strict;
    let cases = ctx.tier.pick(5000u32, 80_000);
    for va in ctx.api.variants() {
        let v = va.v();
        ctx.pt_run(
            "json",
            &format!("json/{}", v.name),
            cases,
            jdoc_strategy(v, strict),
            |d: &JDoc| json!({"variant": v.name, "doc": d}),
            |d: &JDoc, st: &CaseStats| {
                st.sample(|| json!({"check": "json", "variant": v.name, "doc": d}));
                case_json(va, d, st)
            },
        )?;
    }
    Ok(())
}

// ---------------------------------------------------------------- CBOR documents

#[derive(Debug, Clone, PartialEq, serde::Serialize, serde::Deserialize)]
pub enum CDoc {
    Bytes(Vec<u8>),
    /// tags are transparent to ciborium's deserialize_bytes
    Tagged(u64, Vec<u8>),
    Text(String),
    Int(i64),
    Bool(bool),
    Null,
    Float(f64),
    ArrayOfInts(Vec<u8>),
    Map,
    /// indefinite-length byte string in chunks
    Chunked(Vec<Vec<u8>>),
    Raw(Vec<u8>),
}

fn cbor_encode(d: &CDoc) -> Vec<u8> {
    use ciborium::Value as CV;
    let val = match d {
        CDoc::Bytes(b) => CV::Bytes(b.clone()),
        CDoc::Tagged(t, b) => CV::Tag(*t, Box::new(CV::Bytes(b.clone()))),
        CDoc::Text(s) => CV::Text(s.clone()),
        CDoc::Int(i) => CV::Integer((*i).into()),
        CDoc::Bool(b) => CV::Bool(*b),
        CDoc::Null => CV::Null,
        CDoc::Float(f) => CV::Float(*f),
        CDoc::ArrayOfInts(a) => CV::Array(a.iter().map(|&x| CV::Integer(x.into())).collect()),
        CDoc::Map => CV::Map(vec![(CV::Text("a".into()), CV::Integer(1.into()))]),
        CDoc::Chunked(chunks) => {
            let mut o = vec![0x5f];
            for c in chunks {
                o.extend(cbor_bytes_header(c.len()));
                o.extend_from_slice(c);
            }
            o.push(0xff);
            return o;
        }
        CDoc::Raw(r) => return r.clone(),
    };
    let mut out = Vec::new();
    ciborium::into_writer(&val, &mut out).unwrap();
    out
}

pub fn case_cbor(va: &dyn VariantApi, d: &CDoc, buffered: bool, st: &CaseStats) -> Result<(), String> {
    let v = va.v();
    let doc = cbor_encode(d);
    st.eval();
    let got = catch(|| va.from_cbor(&doc).unwrap()).map_err(|p| format!("{}: deserializing the CBOR document {} panicked: {}", v.name, hex(&doc), p))?;
    let judge_payload = |payload: &[u8], must_accept: bool, got: Result<H, String>| -> Result<(), String> {
        let want = va.try_from_slice(payload);
        match (got, want) {
            (Ok(a), Ok(b)) if a.equals(b.as_ref()) => Ok(()),
            (Err(_), Err(_)) => Ok(()),
            (Err(_), Ok(_)) if !must_accept => Ok(()),
            (g, w) => Err(format!(
                "{}: CBOR byte string {} deserializes to {:?} but the binary parser gives {:?}",
                v.name,
                hex(payload),
                g.map(|h| h.display()),
                w.map(|h| h.display())
            )),
        }
    };
    match d {
        CDoc::Bytes(b) | CDoc::Tagged(_, b) => {
            judge_payload(b, true, got)?;
            st.class(if b.len() == v.size() { "cbor: right-length byte string" } else { "cbor: wrong-length byte string" });
            st.nontrivial(fnv_mix(fnv(v.name.as_bytes()), fnv(&doc)));
        }
        CDoc::Chunked(chunks) => {
            let payload: Vec<u8> = chunks.concat();
            // whether a non-buffered build accepts a chunked string is the format crate's business;
            // the buffered build exists to accept them
            judge_payload(&payload, buffered, got)?;
            st.class("cbor: chunked byte string");
        }
        CDoc::Raw(_) => {
            if let Ok(h) = got {
                // accepted raw bytes must denote a byte string the binary parser accepts
                let b = store_vec(h.as_ref(), v.size())?;
                if va.try_from_slice(&b).is_err() {
                    return Err(format!("{}: raw CBOR {} deserialized to a hash the binary parser rejects", v.name, hex(&doc)));
                }
            }
            st.class("cbor: raw bytes");
        }
        _ => {
            if let Ok(h) = got {
                return Err(format!("{}: the CBOR document {:?} (not a byte string) deserialized to {}", v.name, d, h.display()));
            }
            st.class("cbor: wrong type rejected");
        }
    }
    Ok(())
}

fn payload_strategy(v: vmodel::Variant, strict: bool) -> impl Strategy<Value = Vec<u8>> {
    let n = v.size();
    let right = (gens::hash_bytes_strategy(v), any::<u8>(), prop_oneof![Just(0xA9u8), Just(0xAA), Just(0xFF), any::<u8>()], 0u8..4).prop_map(move |(mut b, c, l, k)| {
        match k {
            0 => {
                b[0] = c;
                b[v.ck] = l;
            }
            1 if strict => {
                b[0] = c % 49;
                b[v.ck] = l % 170;
            }
            _ => {}
        }
        b
    });
    let wrong = prop_oneof![vec(any::<u8>(), 0..=2 * n), Just(vec![]), vec(any::<u8>(), n - 1), vec(any::<u8>(), n + 1)];
    prop_oneof![3 => right, 2 => wrong]
}

fn cdoc_strategy(v: vmodel::Variant, strict: bool) -> impl Strategy<Value = CDoc> {
    prop_oneof![
        8 => payload_strategy(v, strict).prop_map(CDoc::Bytes),
        1 => (any::<u64>(), payload_strategy(v, strict)).prop_map(|(t, b)| CDoc::Tagged(t, b)),
        1 => "[0-9A-Fa-fT]{0,140}".prop_map(CDoc::Text),
        1 => any::<i64>().prop_map(CDoc::Int),
        1 => prop_oneof![any::<bool>().prop_map(CDoc::Bool), Just(CDoc::Null), Just(CDoc::Map), (-1e9f64..1e9).prop_map(CDoc::Float)],
        1 => payload_strategy(v, strict).prop_map(CDoc::ArrayOfInts),
        2 => (payload_strategy(v, strict), 1usize..5).prop_map(|(b, k)| CDoc::Chunked(b.chunks((b.len() / k).max(1)).map(|c| c.to_vec()).collect())),
        2 => vec(any::<u8>(), 0..100).prop_map(CDoc::Raw),
    ]
}

fn run_cbor(ctx: &Ctx) -> CheckResult {
    let caps = ctx.api.caps();
    let cases = ctx.tier.pick(5000u32, 80_000);
    for va in ctx.api.variants() {
        let v = va.v();
        ctx.pt_run(
            "cbor",
            &format!("cbor/{}", v.name),
            cases,
            cdoc_strategy(v, caps.strict),
            |d: &CDoc| json!({"variant": v.name, "doc": d}),
            |d: &CDoc, st: &CaseStats| {
                st.sample(|| json!({"check": "cbor", "variant": v.name, "doc": d}));
                case_cbor(va, d, caps.serde_buffered, st)
            },
        )?;
    }
    Ok(())
}

// ---------------------------------------------------------------- postcard documents

#[derive(Debug, Clone, PartialEq, Eq, serde::Serialize, serde::Deserialize)]
pub struct PDoc {
    /// declared length (canonical varint)
    pub declared: u64,
    pub payload: Vec<u8>,
}

pub fn case_postcard(va: &dyn VariantApi, d: &PDoc, st: &CaseStats) -> Result<(), String> {
    let v = va.v();
    let mut doc = varint(d.declared);
    doc.extend_from_slice(&d.payload);
    st.eval();
    let got = catch(|| va.from_postcard(&doc).unwrap()).map_err(|p| format!("{}: deserializing the postcard document {} panicked: {}", v.name, hex(&doc), p))?;
    if (d.payload.len() as u64) < d.declared {
        if let Ok(h) = got {
            return Err(format!("{}: truncated postcard document {} deserialized to {}", v.name, hex(&doc), h.display()));
        }
        st.class("postcard: truncated");
        return Ok(());
    }
    let payload = &d.payload[..d.declared as usize];
    let want = va.try_from_slice(payload);
    match (got, want) {
        (Ok(a), Ok(b)) if a.equals(b.as_ref()) => st.class("postcard: accepted"),
        (Err(_), Err(_)) => st.class(if payload.len() == v.size() { "postcard: right length rejected by the parser" } else { "postcard: wrong length" }),
        (g, w) => {
            return Err(format!(
                "{}: postcard bytes {} deserialize to {:?} but the binary parser gives {:?}",
                v.name,
                hex(&doc),
                g.map(|h| h.display()),
                w.map(|h| h.display())
            ))
        }
    }
    st.nontrivial(fnv_mix(fnv(v.name.as_bytes()), fnv(&doc)));
    Ok(())
}

fn run_postcard(ctx: &Ctx) -> CheckResult {
    let strict = ctx.api.caps().strict;
    let cases = ctx.tier.pick(5000u32, 80_000);
    for va in ctx.api.variants() {
        let v = va.v();
        let n = v.size() as u64;
        let strat = (payload_strategy(v, strict), prop_oneof![4 => Just(None), 1 => prop_oneof![Just(0u64), Just(n - 1), Just(n), Just(n + 1), Just(127), Just(128), Just(300), Just(u32::MAX as u64), Just(u64::MAX >> 1)].prop_map(Some)], vec(any::<u8>(), 0..3))
            .prop_map(|(mut payload, declared, extra)| {
                let declared = declared.unwrap_or(payload.len() as u64);
                payload.extend(extra);
                PDoc { declared, payload }
            });
        ctx.pt_run(
            "postcard",
            &format!("postcard/{}", v.name),
            cases,
            strat,
            |d: &PDoc| json!({"variant": v.name, "doc": d}),
            |d: &PDoc, st: &CaseStats| {
                st.sample(|| json!({"check": "postcard", "variant": v.name, "declared": d.declared, "payload": hex(&d.payload)}));
                case_postcard(va, d, st)
            },
        )?;
    }
    Ok(())
}

// ---------------------------------------------------------------- scripted mock deserializer

pub fn case_mock(va: &dyn VariantApi, s: &DeScript, st: &CaseStats) -> Result<(), String> {
    let v = va.v();
    st.eval();
    // a format that honours the type hint (RON-like text formats, postcard) delivers only what was
    // asked for: the hash's own serialized form comes back only if a string is asked of
    // human-readable formats and bytes of compact ones
    if let Some(h) = va.mock_de_hint(s.human) {
        let ok: &[&str] = if s.human { &["deserialize_str", "deserialize_string", "deserialize_any"] } else { &["deserialize_bytes", "deserialize_byte_buf"] };
        if !ok.contains(&h.as_str()) {
            return Err(format!(
                "{}: Deserialize asks a {} deserializer for {} — a format that honours the hint cannot hand back the {} the hash serializes to",
                v.name,
                if s.human { "human-readable" } else { "compact" },
                h,
                if s.human { "string" } else { "byte string" }
            ));
        }
    }
    let got = catch(|| va.mock_de(s).unwrap()).map_err(|p| format!("{}: Deserialize panicked on the visitor event {:?} (human_readable = {}): {}", v.name, s.event, s.human, p))?;
    // `deserialize_in_place` (what Vec / Option / arrays use when reloading in place) is the same
    // function of the document: same verdict, same value, whatever the place held before
    {
        let mut initial = vec![0u8; v.size()];
        initial[v.ck + 2] = 0x5A;
        if let Some(inp) = catch(|| va.mock_de_in_place(s, &initial)).map_err(|p| format!("{}: deserialize_in_place panicked on the visitor event {:?}: {}", v.name, s.event, p))? {
            st.eval();
            let same = match (&got, &inp) {
                (Ok(a), Ok(b)) => a.equals(b.as_ref()),
                (Err(_), Err(_)) => true,
                _ => false,
            };
            if !same {
                return Err(format!(
                    "{}: visitor event {:?} (human_readable = {}): deserialize gives {} but deserialize_in_place gives {}",
                    v.name,
                    s.event,
                    s.human,
                    match &got {
                        Ok(h) => h.display(),
                        Err(e) => format!("Err({})", e),
                    },
                    match &inp {
                        Ok(h) => h.display(),
                        Err(e) => format!("Err({})", e),
                    }
                ));
            }
        }
    }
    let kind = s.event.kind();
    let bytes_like = matches!(s.event, DeEvent::Bytes(_) | DeEvent::BorrowedBytes(_) | DeEvent::ByteBuf(_));
    let str_like = matches!(s.event, DeEvent::Str(_) | DeEvent::BorrowedStr(_) | DeEvent::String(_));
    let payload: Option<Vec<u8>> = match &s.event {
        DeEvent::Seq(items) => Some(items.clone()),
        e => e.payload().map(|p| p.to_vec()),
    };
    match payload {
        None => {
            if let Ok(h) = got {
                return Err(format!("{}: the visitor event {:?} (wrong type) deserialized to {}", v.name, s.event, h.display()));
            }
            st.class(&format!("mock: {} rejected", kind));
        }
        Some(p) => {
            let text = va.from_str_bytes(&p, None);
            let bin = va.try_from_slice(&p);
            // canonical pairing: must accept exactly what the matching parser accepts
            let canonical = if s.human { str_like || bytes_like } else { bytes_like };
            let matching = if s.human { &text } else { &bin };
            match (&got, canonical) {
                (Ok(h), _) => {
                    // never accept something the parsers reject, and the value must be the parser's
                    let ok = [&text, &bin].iter().any(|w| matches!(w, Ok(x) if x.equals(h.as_ref())));
                    let ok_matching = matches!(matching, Ok(x) if x.equals(h.as_ref()));
                    if !ok || (canonical && !ok_matching) {
                        return Err(format!(
                            "{}: visitor event {} with payload {} (human_readable = {}) deserialized to {} but the matching parser gives {:?}",
                            v.name,
                            kind,
                            hex(&p),
                            s.human,
                            h.display(),
                            matching.as_ref().map(|x| x.display())
                        ));
                    }
                    st.class(&format!("mock: {} accepted", kind));
                }
                (Err(e), true) => {
                    if matching.is_ok() {
                        return Err(format!("{}: visitor event {} with payload {} (human_readable = {}) was rejected ({}) although the matching parser accepts it", v.name, kind, hex(&p), s.human, e));
                    }
                    st.class(&format!("mock: {} rejected like the parser", kind));
                }
                (Err(_), false) => st.class(&format!("mock: {} rejected (non-canonical pairing)", kind)),
            }
            st.nontrivial(fnv_mix(fnv_mix(fnv(v.name.as_bytes()), fnv(&p)), fnv(kind.as_bytes()) ^ s.human as u64));
        }
    }
    Ok(())
}

fn event_strategy(v: vmodel::Variant, strict: bool) -> impl Strategy<Value = DeEvent> {
    let text = (gens::text_strategy(v), any::<u8>(), any::<u8>()).prop_map(move |(mut t, c, l): (TextSpec, u8, u8)| {
        if t.raw.is_none() && strict && c % 4 != 0 {
            t.base[0] = c % 49;
            t.base[v.ck] = l % 170;
        }
        t.render(v)
    });
    let string = text.clone().prop_map(|b| String::from_utf8_lossy(&b).into_owned());
    let bytes = prop_oneof![2 => payload_strategy(v, strict), 2 => text];
    let leaf = prop_oneof![
        3 => string.clone().prop_map(DeEvent::Str),
        1 => string.clone().prop_map(DeEvent::BorrowedStr),
        1 => string.prop_map(DeEvent::String),
        3 => bytes.clone().prop_map(DeEvent::Bytes),
        1 => bytes.clone().prop_map(DeEvent::BorrowedBytes),
        1 => bytes.clone().prop_map(DeEvent::ByteBuf),
        1 => any::<bool>().prop_map(DeEvent::Bool),
        1 => any::<i64>().prop_map(DeEvent::I64),
        1 => any::<u64>().prop_map(DeEvent::U64),
        1 => (-1e9f64..1e9).prop_map(DeEvent::F64),
        1 => any::<char>().prop_map(DeEvent::Char),
        1 => Just(DeEvent::Unit),
        1 => Just(DeEvent::None),
        1 => bytes.prop_map(DeEvent::Seq),
        1 => vec(("[a-z]{0,4}", any::<u64>()), 0..3).prop_map(DeEvent::Map),
    ];
    let leaf = leaf.boxed();
    prop_oneof![
        20 => leaf.clone(),
        1 => leaf.clone().prop_map(|e| DeEvent::Some(Box::new(e))),
        1 => leaf.prop_map(|e| DeEvent::NewtypeStruct(Box::new(e))),
    ]
}

fn run_mock(ctx: &Ctx) -> CheckResult {
    let strict = ctx.api.caps().strict;
    let cases = ctx.tier.pick(8000u32, 120_000);
    for va in ctx.api.variants() {
        let v = va.v();
        ctx.pt_run(
            "mock",
            &format!("mock/{}", v.name),
            cases,
            (event_strategy(v, strict), any::<bool>()).prop_map(|(event, human)| DeScript { human, event }),
            |s: &DeScript| json!({"variant": v.name, "script": s}),
            |s: &DeScript, st: &CaseStats| {
                st.sample(|| json!({"check": "mock", "variant": v.name, "script": s}));
                case_mock(va, s, st)
            },
        )?;
    }
    ctx.exhaustive("all 17 visitor event kinds x {human-readable, compact} (payloads generated)");
    Ok(())
}

pub fn replay(ctx: &Ctx, check: &str, case: &Value) -> Result<(), String> {
    let live = Cell::new(true);
    let st = ctx.stats("replay", &live);
    let va = super::codec::variant_of(ctx.api, case)?;
    let caps = ctx.api.caps();
    let doc = || case.get("doc").cloned().ok_or("no doc".to_string());
    match check {
        "roundtrip" => case_roundtrip(va, &super::codec::bytes_of(case, "bytes")?, &st),
        "json" => case_json(va, &serde_json::from_value(doc()?).map_err(|e| e.to_string())?, &st),
        "cbor" => case_cbor(va, &serde_json::from_value(doc()?).map_err(|e| e.to_string())?, caps.serde_buffered, &st),
        "postcard" => case_postcard(va, &serde_json::from_value(doc()?).map_err(|e| e.to_string())?, &st),
        "mock" => case_mock(va, &serde_json::from_value(case.get("script").cloned().ok_or("no script")?).map_err(|e| e.to_string())?, &st),
        _ => Err(format!("unknown check {}", check)),
    }
}
