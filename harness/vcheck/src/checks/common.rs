//! Helpers shared by the checks.

use crate::api::*;
use crate::ctx::hex;
use vmodel::Variant;

pub fn parts(h: &dyn HashObj) -> vmodel::Hash {
    vmodel::Hash { checksum: h.checksum(), lvalue: h.lvalue(), q1: h.q1(), q2: h.q2(), body: h.body() }
}

pub fn show_model(v: Variant, h: &vmodel::Hash) -> String {
    String::from_utf8(vmodel::text::encode(v, &h.to_bytes(), true)).unwrap()
}

pub fn show_parts(h: &vmodel::Hash) -> String {
    format!("ck={} L={} q1={} q2={} body={}", hex(&h.checksum), h.lvalue, h.q1, h.q2, hex(&h.body))
}

/// Both directions: equal parts, equal error, equal Ok/Err-ness.
pub fn compare_result(what: &str, imp: &Result<H, GErr>, model: &Result<vmodel::Hash, vmodel::GenError>) -> Result<(), String> {
    match (imp, model) {
        (Ok(h), Ok(m)) => {
            let p = parts(h.as_ref());
            if &p != m {
                return Err(format!("{}: implementation [{}] != reference [{}]", what, show_parts(&p), show_parts(m)));
            }
            Ok(())
        }
        (Err(e), Err(m)) => {
            if *e != GErr::from_model(*m) {
                return Err(format!("{}: implementation error {:?} != reference error {:?}", what, e, m));
            }
            Ok(())
        }
        (Ok(h), Err(m)) => Err(format!("{}: implementation accepted [{}] but reference rejects with {:?}", what, show_parts(&parts(h.as_ref())), m)),
        (Err(e), Ok(m)) => Err(format!("{}: implementation rejected with {:?} but reference yields [{}]", what, e, show_parts(m))),
    }
}

pub fn variant_by_name<'a>(api: &'a dyn GlobalApi, name: &str) -> Option<&'a dyn VariantApi> {
    api.variants().into_iter().find(|v| v.v().name == name)
}

pub fn opt_name(i: usize) -> String {
    let o = Opts::from_index(i);
    format!(
        "{}/{}{}{}{}",
        if o.conservative { "conservative" } else { "optimistic" },
        if o.pure_integer { "int" } else { "f32" },
        if o.allow_small { "+small" } else { "" },
        if o.allow_half { "+half" } else { "" },
        if o.allow_quarter { "+quarter" } else { "" }
    )
}

/// Model state from an injected implementation state.
pub fn model_from_state(v: Variant, st: &GenState) -> vmodel::Gen {
    assert_eq!(st.tail_len, 4);
    vmodel::Gen::from_state(v, &st.buckets, &st.checksum, st.tail, st.len as u64 + 4)
}

/// Runs `f` on `n` worker threads over `items` (static partition); returns the
/// first error by item order.
pub fn par_map<T: Sync, R: Send>(threads: usize, items: &[T], f: impl Fn(&T) -> R + Sync) -> Vec<R> {
    let n = items.len();
    let mut out: Vec<Option<R>> = (0..n).map(|_| None).collect();
    let next = std::sync::atomic::AtomicUsize::new(0);
    let slots = std::sync::Mutex::new(&mut out);
    std::thread::scope(|s| {
        for _ in 0..threads.max(1).min(n.max(1)) {
            s.spawn(|| loop {
                let i = next.fetch_add(1, std::sync::atomic::Ordering::Relaxed);
                if i >= n {
                    break;
                }
                let r = f(&items[i]);
                slots.lock().unwrap()[i] = Some(r);
            });
        }
    });
    out.into_iter().map(|x| x.expect("worker result")).collect()
}


/// The option setting a sequence of setter calls on one fresh options object denotes: every
/// setter writes its own field, the last write wins, unset fields keep their defaults.
pub fn setters_effective(seq: &[(u8, bool)]) -> Opts {
    let mut o = Opts::from_index(Opts::DEFAULT_INDEX);
    for &(w, val) in seq {
        match w % 5 {
            0 => o.conservative = val,
            1 => o.pure_integer = val,
            2 => o.allow_small = val,
            3 => o.allow_half = val,
            _ => o.allow_quarter = val,
        }
    }
    o
}

pub fn setters_name(seq: &[(u8, bool)]) -> String {
    let n = ["conservative", "pure_integer", "allow_small", "allow_half", "allow_quarter"];
    seq.iter().map(|&(w, v)| format!("{}({})", n[(w % 5) as usize], v)).collect::<Vec<_>>().join(".")
}

/// Every sequence of at most three calls of the three `allow_*` setters (6 + 36 + 216) after an
/// optional length-mode call, plus on/off toggles of each setter: the result of finalizing with
/// the options object so built must be the result for the setting the sequence denotes
/// (`expected(index)` as display text), i.e. independent of call order and history.
pub fn setter_sequences() -> Vec<Vec<(u8, bool)>> {
    let calls: Vec<(u8, bool)> = [2u8, 3, 4].iter().flat_map(|&w| [(w, true), (w, false)]).collect();
    let mut out: Vec<Vec<(u8, bool)>> = vec![vec![]];
    for &a in &calls {
        out.push(vec![a]);
        for &b in &calls {
            out.push(vec![a, b]);
            for &c in &calls {
                out.push(vec![a, b, c]);
                out.push(vec![(0, true), a, b, c]);
            }
        }
    }
    for w in 0..5u8 {
        out.push(vec![(w, true), (w, false)]);
        out.push(vec![(w, false), (w, true)]);
        out.push(vec![(w, true), (w, false), (w, true)]);
        out.push(vec![(1, true), (w, true), (1, false), (w, false)]);
    }
    out
}

pub fn case_setters(what: &str, g: &dyn GenObj, seq: &[(u8, bool)], expected: &dyn Fn(usize) -> String) -> Result<(), String> {
    let eff = setters_effective(seq);
    let got = format!("{:?}", crate::ctx::catch(|| g.finalize_setters(seq)).map_err(|p| format!("{}: finalize after {} panicked: {}", what, setters_name(seq), p))?.map(|h| h.display()));
    let want = expected(eff.index());
    if got != want {
        return Err(format!(
            "{}: GeneratorOptions::new().{} denotes the setting {} but finalize_with_options gave {} instead of {}",
            what,
            setters_name(seq),
            opt_name(eff.index()),
            got,
            want
        ));
    }
    Ok(())
}
