//! C04 — hex text form round-trips and is canonical.

use super::codec::*;
use super::{CheckResult, Sub};
use crate::ctx::{hex, CaseStats, Ctx};
use crate::gens::{self, TextSpec};
use proptest::prelude::*;
use serde_json::{json, Value};
use std::cell::Cell;

pub fn subs() -> Vec<Sub> {
    vec![
        Sub { name: "roundtrip", run: run_roundtrip },
        Sub { name: "sweep", run: run_sweep },
        Sub { name: "canonical", run: run_canonical },
        Sub { name: "canonsweep", run: run_canonical_sweep },
    ]
}

fn run_roundtrip(ctx: &Ctx) -> CheckResult {
    let cases = ctx.tier.pick(6_000u32, 100_000);
    for va in ctx.api.variants() {
        let v = va.v();
        ctx.pt_run(
            "roundtrip",
            &format!("roundtrip/{}", v.name),
            cases,
            gens::hash_bytes_strategy(v),
            |b: &Vec<u8>| json!({"variant": v.name, "bytes": hex(b)}),
            |b: &Vec<u8>, st: &CaseStats| {
                st.sample(|| json!({"check": "roundtrip", "variant": v.name, "bytes": hex(b)}));
                case_roundtrip(va, b, st)
            },
        )?;
    }
    Ok(())
}

/// Every byte position x every byte value on a random background.
fn run_sweep(ctx: &Ctx) -> CheckResult {
    let live = Cell::new(true);
    let st = ctx.stats("sweep", &live);
    for va in ctx.api.variants() {
        let v = va.v();
        let bgs = ctx.sample_values(&format!("sweepbg/{}", v.name), ctx.tier.pick(1, 4), &proptest::collection::vec(any::<u8>(), v.size()));
        for bg in bgs {
            for pos in 0..v.size() {
                for x in 0..=255u8 {
                    let mut b = bg.clone();
                    b[pos] = x;
                    if let Err(m) = case_roundtrip(va, &b, &st) {
                        return Err(ctx.violation("roundtrip", m, json!({"variant": v.name, "bytes": hex(&b)})));
                    }
                }
            }
            st.sample(|| json!({"check": "sweep", "variant": v.name, "background": hex(&bg)}));
        }
    }
    ctx.exhaustive("every byte position x every byte value of a hash on random backgrounds (format + parse through 5 entry points)");
    Ok(())
}

fn run_canonical(ctx: &Ctx) -> CheckResult {
    let cases = ctx.tier.pick(8_000u32, 120_000);
    for va in ctx.api.variants() {
        let v = va.v();
        ctx.pt_run(
            "canonical",
            &format!("canonical/{}", v.name),
            cases,
            gens::text_strategy(v),
            |t: &TextSpec| json!({"variant": v.name, "text": hex(&t.render(v))}),
            |t: &TextSpec, st: &CaseStats| {
                let s = t.render(v);
                st.sample(|| json!({"check": "canonical", "variant": v.name, "text": String::from_utf8_lossy(&s)}));
                case_canonical(va, &s, st)
            },
        )?;
    }
    Ok(())
}

/// Every position x every byte value of valid strings (all-zero, all-ones and random
/// hashes, with and without prefix): whatever the parser accepts must be canonical.
fn run_canonical_sweep(ctx: &Ctx) -> CheckResult {
    let live = Cell::new(true);
    let st = ctx.stats("canonsweep", &live);
    for va in ctx.api.variants() {
        let v = va.v();
        let mut bases = vec![vec![0u8; v.size()], vec![0x11u8; v.size()]];
        bases.extend(ctx.sample_values(&format!("canonbase/{}", v.name), ctx.tier.pick(2, 6), &proptest::collection::vec(any::<u8>(), v.size())));
        for base in bases {
            for with in [false, true] {
                let s0 = vmodel::text::encode(v, &base, with);
                for pos in 0..s0.len() {
                    for x in 0..=255u8 {
                        let mut s = s0.clone();
                        s[pos] = x;
                        if let Err(m) = case_canonical(va, &s, &st) {
                            return Err(ctx.violation("canonical", m, json!({"variant": v.name, "text": hex(&s)})));
                        }
                    }
                }
            }
        }
    }
    ctx.exhaustive("every position x every byte value of valid strings (zero / 0x11 / random hashes, with and without prefix) through parse + re-format");
    Ok(())
}

pub fn replay(ctx: &Ctx, check: &str, case: &Value) -> Result<(), String> {
    let live = Cell::new(true);
    let st = ctx.stats("replay", &live);
    let va = variant_of(ctx.api, case)?;
    match check {
        "roundtrip" | "sweep" => case_roundtrip(va, &bytes_of(case, "bytes")?, &st),
        "canonical" => case_canonical(va, &bytes_of(case, "text")?, &st),
        _ => Err(format!("unknown check {}", check)),
    }
}
