//! C05 — the hex parser accepts exactly the well-formed strings and never panics.

use super::codec::*;
use super::{CheckResult, Sub};
use crate::ctx::{fnv, fnv_mix, hex, CaseStats, Ctx};
use crate::gens::{self, TextSpec};
use proptest::prelude::*;
use serde_json::{json, Value};
use std::cell::Cell;

pub fn subs() -> Vec<Sub> {
    vec![
        Sub { name: "random", run: run_random },
        Sub { name: "sweep", run: run_sweep },
        Sub { name: "utf8", run: run_utf8 },
        Sub { name: "pairsweep", run: run_pairsweep },
        Sub { name: "lengths", run: run_lengths },
        Sub { name: "hugelen", run: run_hugelen },
    ]
}

fn run_random(ctx: &Ctx) -> CheckResult {
    let cases = ctx.tier.pick(12_000u32, 200_000);
    let strict = ctx.api.caps().strict;
    for va in ctx.api.variants() {
        let v = va.v();
        ctx.pt_run(
            "parse",
            &format!("random/{}", v.name),
            cases,
            (gens::text_strategy(v), 0usize..3),
            |(t, m): &(TextSpec, usize)| json!({"variant": v.name, "text": hex(&t.render(v)), "prefix": prefix_json(MODES[*m])}),
            |(t, m): &(TextSpec, usize), st: &CaseStats| {
                let s = t.render(v);
                st.sample(|| json!({"check": "parse", "variant": v.name, "text": String::from_utf8_lossy(&s), "prefix": prefix_json(MODES[*m])}));
                case_parse(va, &s, MODES[*m], strict, st)?;
                let right_len = s.len() == v.len_str() || s.len() == v.len_hex();
                if right_len && (!t.muts.is_empty() || t.raw.is_some()) {
                    st.nontrivial(fnv_mix(fnv(v.name.as_bytes()), fnv_mix(fnv(&s), *m as u64)));
                }
                Ok(())
            },
        )?;
    }
    Ok(())
}

/// For a valid base string (with and without prefix): every position x every byte value x 3 modes.
fn run_sweep(ctx: &Ctx) -> CheckResult {
    let live = Cell::new(true);
    let st = ctx.stats("sweep", &live);
    let strict = ctx.api.caps().strict;
    for va in ctx.api.variants() {
        let v = va.v();
        let mut bases = ctx.sample_values(&format!("sweepbase/{}", v.name), ctx.tier.pick(1, 3), &proptest::collection::vec(any::<u8>(), v.size()));
        // digit neighbourhoods that table tricks depend on: all '0' and all 'F' digits
        bases.push(vec![0u8; v.size()]);
        bases.push(vec![0xFFu8; v.size()]);
        for mut base in bases {
            if strict {
                // keep the base itself acceptable so that single-byte changes decide the verdict
                base[0] %= 49;
                base[v.ck] %= 170;
            }
            for with in [false, true] {
                let s0 = vmodel::text::encode(v, &base, with);
                for pos in 0..s0.len() {
                    for x in 0..=255u8 {
                        let mut s = s0.clone();
                        s[pos] = x;
                        for p in MODES {
                            if let Err(m) = case_parse(va, &s, p, strict, &st) {
                                return Err(ctx.violation("parse", m, json!({"variant": v.name, "text": hex(&s), "prefix": prefix_json(p)})));
                            }
                        }
                    }
                }
                ctx.ev.borrow_mut().nontrivial_enumerated += s0.len() as u64 * 255 * 3;
                st.sample(|| json!({"check": "sweep", "variant": v.name, "base": String::from_utf8_lossy(&s0)}));
            }
        }
    }
    ctx.exhaustive("every position x every byte value 0..=255 of a valid string (with and without prefix) x 3 prefix modes");
    Ok(())
}

/// Valid UTF-8 strings of exactly the right byte length in which one multi-byte character
/// replaces digits: every character of `gens::UTF8_CHARS` at every byte offset of a valid string
/// (with and without prefix) x 3 prefix modes, through all three entry points (the `&str` ones
/// may not assume that byte offsets are character boundaries).
fn run_utf8(ctx: &Ctx) -> CheckResult {
    let live = Cell::new(true);
    let st = ctx.stats("utf8", &live);
    let strict = ctx.api.caps().strict;
    for va in ctx.api.variants() {
        let v = va.v();
        let mut base = ctx.sample_values(&format!("utf8base/{}", v.name), 1, &proptest::collection::vec(any::<u8>(), v.size())).remove(0);
        if strict {
            base[0] %= 49;
            base[v.ck] %= 170;
        }
        for with in [false, true] {
            let s0 = vmodel::text::encode(v, &base, with);
            for c in gens::UTF8_CHARS {
                let c = c.as_bytes();
                for pos in 0..=s0.len() - c.len() {
                    let mut s = s0.clone();
                    s[pos..pos + c.len()].copy_from_slice(c);
                    for p in MODES {
                        if let Err(m) = case_parse(va, &s, p, strict, &st) {
                            return Err(ctx.violation("parse", m, json!({"variant": v.name, "text": hex(&s), "prefix": prefix_json(p)})));
                        }
                    }
                    ctx.ev.borrow_mut().nontrivial_enumerated += 3;
                }
            }
            st.sample(|| json!({"check": "utf8", "variant": v.name, "base": String::from_utf8_lossy(&s0), "characters": gens::UTF8_CHARS}));
        }
    }
    ctx.exhaustive("every multi-byte character of a fixed list at every byte offset of a valid string (with and without prefix) x 3 prefix modes");
    Ok(())
}

/// Inputs whose length does not fit in 32 bits: a lazily mapped slab of 2^32 + 512 bytes that
/// starts with a valid string (prefixed, then bare); slices of 2^32 + L bytes for the two valid
/// lengths L and a few others, all three prefix modes, all three entry points.  "A length error
/// for every wrong length" must not be decided on a truncated length.
fn run_hugelen(ctx: &Ctx) -> CheckResult {
    if ctx.tier == crate::ctx::Tier::Quick && ctx.config != "default" {
        ctx.skipped("hugelen: quick tier runs it in the default configuration only");
        return Ok(());
    }
    let mut slab = vec![0u8; (1usize << 32) + 512];
    let mut n = 0u64;
    for va in ctx.api.variants() {
        let v = va.v();
        let mut base = ctx.sample_values(&format!("hugelen/{}", v.name), 1, &proptest::collection::vec(any::<u8>(), v.size())).remove(0);
        base[0] %= 49;
        base[v.ck] %= 170;
        for with in [true, false] {
            let t = vmodel::text::encode(v, &base, with);
            slab[..t.len()].copy_from_slice(&t);
            // the rest of the slab is NUL: valid UTF-8, never a digit
            for l in [v.len_hex(), v.len_str(), 0, 1, 2, v.len_str() + 1] {
                let s = &slab[..(1usize << 32) + l];
                let text = unsafe { std::str::from_utf8_unchecked(s) };
                for p in MODES {
                    let rs = [
                        ("from_str_bytes", crate::ctx::catch(|| va.from_str_bytes(s, p).map(|_| ()))),
                        ("from_str_with", crate::ctx::catch(|| va.from_str_with(text, p).map(|_| ()))),
                        ("FromStr::from_str", crate::ctx::catch(|| va.from_str(text).map(|_| ()))),
                    ];
                    for (what, r) in rs {
                        n += 1;
                        let bad = match r {
                            Ok(Err(crate::api::PErr::InvalidStringLength)) => None,
                            Ok(Ok(())) => Some("accepted it".to_string()),
                            Ok(Err(e)) => Some(format!("reported {:?}, which does not apply to a wrong length", e)),
                            Err(pm) => Some(format!("panicked: {}", pm)),
                        };
                        if let Some(b) = bad {
                            slab[..t.len()].fill(0);
                            return Err(ctx.violation(
                                "hugelen",
                                format!("{}: {} on a string of 2^32 + {} bytes (starting with a valid {} string, then NUL bytes), prefix mode {:?}: {}", v.name, what, l, if with { "prefixed" } else { "bare" }, p, b),
                                json!({"variant": v.name, "l": l}),
                            ));
                        }
                    }
                }
            }
            slab[..t.len()].fill(0);
        }
    }
    ctx.ev.borrow_mut().evaluations += n;
    ctx.ev.borrow_mut().nontrivial_enumerated += n;
    ctx.subcheck("hugelen", n);
    ctx.ev.borrow_mut().sample(json!({"check": "hugelen", "lengths": "2^32 + {0, 1, 2, LEN_HEX, LEN_STR, LEN_STR + 1}", "entry_points": 3, "modes": 3}));
    Ok(())
}

/// The digit decoders work on two-character pairs: for every header pair and for the first,
/// a middle and the last body pair (thorough: every body pair), ALL 256 x 256 character
/// combinations on a valid base string, i.e. the complete domain of the pair decoders of this
/// build configuration.
pub fn run_pairsweep(ctx: &Ctx) -> CheckResult {
    let strict = ctx.api.caps().strict;
    let thorough = ctx.tier == crate::ctx::Tier::Thorough;
    for va in ctx.api.variants() {
        let v = va.v();
        let mut base = ctx.sample_values(&format!("pairbase/{}", v.name), 1, &proptest::collection::vec(any::<u8>(), v.size())).remove(0);
        if strict {
            base[0] %= 49;
            base[v.ck] %= 170;
        }
        let s0 = vmodel::text::encode(v, &base, true);
        let n_pairs = v.size();
        let hdr = v.ck + 2;
        let mut pairs: Vec<usize> = (0..hdr).collect();
        if thorough {
            pairs.extend(hdr..n_pairs);
        } else {
            pairs.extend([hdr, (hdr + n_pairs) / 2, n_pairs - 1]);
        }
        let res = super::common::par_map(ctx.threads, &pairs, |&k| -> Option<Vec<u8>> {
            let st = CaseStats::null();
            let mut s = s0.clone();
            let pos = 2 + 2 * k;
            for x in 0..=255u8 {
                for y in 0..=255u8 {
                    s[pos] = x;
                    s[pos + 1] = y;
                    if case_parse(va, &s, None, strict, &st).is_err() {
                        return Some(s);
                    }
                }
            }
            None
        });
        {
            let mut ev = ctx.ev.borrow_mut();
            ev.evaluations += pairs.len() as u64 * 65536 * 3;
            ev.nontrivial_enumerated += pairs.len() as u64 * 65535;
        }
        ctx.subcheck("pairsweep", pairs.len() as u64 * 65536);
        if let Some(s) = res.into_iter().flatten().next() {
            let live = Cell::new(true);
            let st = ctx.stats("pairsweep", &live);
            let m = case_parse(va, &s, None, strict, &st).err().unwrap_or_else(|| "did not reproduce".into());
            return Err(ctx.violation("parse", m, json!({"variant": v.name, "text": hex(&s), "prefix": prefix_json(None)})));
        }
    }
    ctx.exhaustive("all 256x256 character combinations of every header digit pair and of the first / middle / last body digit pair (thorough: every body pair)");
    Ok(())
}

/// All lengths 0..=2*LEN of several fillers.
fn run_lengths(ctx: &Ctx) -> CheckResult {
    let live = Cell::new(true);
    let st = ctx.stats("lengths", &live);
    let strict = ctx.api.caps().strict;
    for va in ctx.api.variants() {
        let v = va.v();
        for len in 0..=2 * v.len_str() {
            let mut fillers: Vec<Vec<u8>> = vec![vec![b'0'; len], vec![b'f'; len], vec![0xFFu8; len], vec![0u8; len]];
            let mut t1 = b"T1".to_vec();
            t1.resize(len.max(2), b'A');
            t1.truncate(len);
            fillers.push(t1);
            for s in fillers {
                for p in MODES {
                    if let Err(m) = case_parse(va, &s, p, strict, &st) {
                        return Err(ctx.violation("parse", m, json!({"variant": v.name, "text": hex(&s), "prefix": prefix_json(p)})));
                    }
                }
            }
        }
    }
    ctx.exhaustive("all input lengths 0..=2*LEN_IN_STR for five fillers x 3 prefix modes");
    Ok(())
}

pub fn replay(ctx: &Ctx, check: &str, case: &Value) -> Result<(), String> {
    if check == "hugelen" {
        // deterministic: re-run the whole sub-check
        return run_hugelen(ctx).map_err(|v| v.message);
    }
    let live = Cell::new(true);
    let st = ctx.stats("replay", &live);
    let va = variant_of(ctx.api, case)?;
    case_parse(va, &bytes_of(case, "text")?, prefix_of(case), ctx.api.caps().strict, &st)
}
