//! C07 — results do not depend on feature configuration or SIMD backend.
//!
//! Leg 1: every configuration agrees with the one configuration-independent model
//!        (the C01/C02/C04/C05/C06/C14 checks re-run inside each probe).
//! Leg 2: cross-configuration transcript equality (compared by the driver).
//! Leg 3: every backend compiled into one binary against the model (hooks).
//! Schedules: the `race` command (first calls made concurrently by 16 threads).

use super::common::*;
use super::{CheckResult, Sub};
use crate::api::*;
use crate::ctx::{catch, fnv, fnv_mix, hex, CaseStats, Ctx, Tier};
use crate::gens::{self, StateSpec};
use proptest::prelude::*;
use serde_json::{json, Value};
use std::cell::Cell;

macro_rules! wrap {
    ($name:ident, $id:literal, $m:ident, [$($sub:literal),*]) => {
        fn $name(ctx: &Ctx) -> CheckResult {
            for s in super::$m::subs() {
                if [$($sub),*].contains(&s.name) {
                    (s.run)(ctx).map_err(|mut v| {
                        v.check = format!("{}/{}", $id, v.check);
                        v
                    })?;
                }
            }
            Ok(())
        }
    };
}

wrap!(leg_c01, "C01", c01, ["data", "state", "lencode"]);
wrap!(leg_c01_bmap, "C01", c01, ["bmap"]);
wrap!(leg_c02, "C02", c02, ["random", "header", "body", "backends", "adjacent"]);
wrap!(leg_c04, "C04", c04, ["roundtrip", "sweep", "canonical", "canonsweep"]);
wrap!(leg_c05, "C05", c05, ["random", "sweep", "pairsweep", "lengths"]);
wrap!(leg_c06, "C06", c06, ["binary", "slices", "generated"]);
wrap!(leg_c14, "C14", c14, ["buffers"]);

fn leg_bmap_thorough(ctx: &Ctx) -> CheckResult {
    if ctx.tier == Tier::Thorough {
        leg_c01_bmap(ctx)
    } else {
        ctx.skipped("bmap sweep per configuration: thorough tier (quick runs it in C01)");
        Ok(())
    }
}

pub fn subs() -> Vec<Sub> {
    vec![
        Sub { name: "generate", run: leg_c01 },
        Sub { name: "bmap", run: leg_bmap_thorough },
        Sub { name: "compare", run: leg_c02 },
        Sub { name: "format", run: leg_c04 },
        Sub { name: "parse", run: leg_c05 },
        Sub { name: "binary", run: leg_c06 },
        Sub { name: "buffers", run: leg_c14 },
        Sub { name: "aggbackends", run: run_aggbackends },
        Sub { name: "transcript", run: run_transcript },
    ]
}

// ---------------------------------------------------------------- aggregation backends

#[derive(Debug, Clone, PartialEq, Eq, serde::Serialize, serde::Deserialize)]
pub struct AggCase {
    pub buckets: Vec<u32>,
    pub q: [u32; 3],
}

pub fn case_agg(va: &dyn VariantApi, c: &AggCase, st: &CaseStats) -> Result<(), String> {
    let v = va.v();
    let n = v.buckets;
    let want = vmodel::aggregate(&c.buckets, n, c.q[0], c.q[1], c.q[2]);
    let mut ran = 0;
    for be in AGG_BACKENDS {
        let got = catch(|| va.aggregate_by(be, &c.buckets, c.q[0], c.q[1], c.q[2])).map_err(|p| format!("{}: aggregation backend {:?} panicked: {}", n, be, p))?;
        if let Some(got) = got {
            ran += 1;
            st.eval();
            if got != want {
                let i = (0..want.len()).find(|&i| got[i] != want[i]).unwrap();
                return Err(format!(
                    "{}-bucket aggregation by backend {:?} differs from the reference at body byte {}: {:#04x} != {:#04x} (q1,q2,q3 = {:?}, buckets {:?})",
                    n,
                    be,
                    i,
                    got[i],
                    want[i],
                    c.q,
                    &c.buckets[4 * (want.len() - 1 - i)..4 * (want.len() - 1 - i) + 4]
                ));
            }
        }
    }
    if ran >= 2 {
        let mut d = fnv(v.name.as_bytes());
        for b in &c.buckets[..n] {
            d = fnv_mix(d, *b as u64);
        }
        st.nontrivial(fnv_mix(d, c.q[0] as u64 ^ ((c.q[1] as u64) << 20) ^ ((c.q[2] as u64) << 40)));
    }
    if c.q[2] >= 1 << 31 {
        st.class("agg: q3 >= 2^31");
    }
    if c.buckets[..n].iter().any(|b| c.q.contains(b)) {
        st.class("agg: a bucket ties with a quartile");
    }
    Ok(())
}

fn run_aggbackends(ctx: &Ctx) -> CheckResult {
    if !ctx.api.caps().hooks {
        ctx.skipped("aggbackends: built without hooks");
        return Ok(());
    }
    let cases = ctx.tier.pick(4000u32, 80_000);
    for name in ["Short", "Normal", "Long"] {
        let va = variant_by_name(ctx.api, name).unwrap();
        let v = va.v();
        let avail: Vec<AggBackend> = AGG_BACKENDS.iter().copied().filter(|&b| va.aggregate_by(b, &vec![0u32; 256], 0, 0, 0).is_some()).collect();
        ctx.note(format!("{}-bucket aggregation backends executed: {:?}", v.buckets, avail));
        let strat = (gens::state_strategy(v), 0u8..4, any::<[u32; 3]>(), any::<[u8; 3]>()).prop_map(move |(s, mode, r, pick): (StateSpec, u8, [u32; 3], [u8; 3])| {
            let gs = s.render(v);
            let b = gs.buckets.clone();
            let q = match mode {
                // true quartiles
                0 | 1 => {
                    let mut sorted: Vec<u32> = b[..v.buckets].to_vec();
                    sorted.sort_unstable();
                    [sorted[v.buckets / 4 - 1], sorted[v.buckets / 2 - 1], sorted[v.buckets - v.buckets / 4 - 1]]
                }
                // arbitrary ordered triple
                2 => {
                    let mut q = r;
                    q.sort_unstable();
                    q
                }
                // ordered triple of values that occur in the buckets (ties)
                _ => {
                    let mut q = [b[pick[0] as usize % v.buckets], b[pick[1] as usize % v.buckets], b[pick[2] as usize % v.buckets]];
                    q.sort_unstable();
                    q
                }
            };
            AggCase { buckets: b, q }
        });
        ctx.pt_run(
            "aggbackends",
            &format!("agg/{}", name),
            cases,
            strat,
            |c: &AggCase| json!({"variant": name, "agg": c}),
            |c: &AggCase, st: &CaseStats| {
                st.sample(|| json!({"check": "aggbackends", "variant": name, "q": c.q, "buckets_head": &c.buckets[..8]}));
                case_agg(va, c, st)
            },
        )?;
    }
    Ok(())
}

// ---------------------------------------------------------------- transcripts

fn res_h(r: &Result<H, impl std::fmt::Debug>, n: usize) -> String {
    match r {
        Ok(h) => {
            let mut b = vec![0u8; n];
            let _ = h.store_bytes(&mut b);
            format!("Ok({})", hex(&b))
        }
        Err(e) => format!("Err({:?})", e),
    }
}

/// One transcript record: a pure function of (op, inputs), independent of the configuration.
pub fn transcript_records(ctx: &Ctx) -> (Vec<(String, String)>, Vec<(String, String)>) {
    let api = ctx.api;
    let mut core: Vec<(String, String)> = Vec::new();
    let mut easy: Vec<(String, String)> = Vec::new();
    let k = ctx.tier.pick(1usize, 8);
    for va in api.variants() {
        let v = va.v();
        let n = v.size();
        // which admissible parse error is reported
        for (i, t) in ctx.sample_values(&format!("tr-text/{}", v.name), 700 * k, &gens::text_strategy(v)).into_iter().enumerate() {
            let s = t.render(v);
            let p = super::codec::MODES[i % 3];
            let r = catch(|| va.from_str_bytes(&s, p));
            core.push((format!("{} parse {:?} {}", v.name, p, hex(&s)), match r {
                Ok(r) => res_h(&r, n),
                Err(p) => format!("panic {}", p),
            }));
        }
        // strict builds: inputs with several faults at once (which one is reported must not depend
        // on tables / SIMD)
        if api.caps().strict {
            for (i, s) in ctx.sample_values(&format!("tr-gated/{}", v.name), 700 * k, &gens::gated_text_strategy(v)).into_iter().enumerate() {
                let p = super::codec::MODES[i % 3];
                let r = catch(|| va.from_str_bytes(&s, p));
                core.push((format!("{} parse(gated) {:?} {}", v.name, p, hex(&s)), match r {
                    Ok(r) => res_h(&r, n),
                    Err(p) => format!("panic {}", p),
                }));
                if let Ok(b) = crate::ctx::catch(|| va.try_from_slice(&s[..s.len().min(n)])) {
                    core.push((format!("{} try_from(gated) {}", v.name, hex(&s[..s.len().min(n)])), res_h(&b, n)));
                }
            }
        }
        // generation under all options
        for d in ctx.sample_values(&format!("tr-data/{}", v.name), 120 * k, &gens::data_strategy(v, 4000)) {
            let data = d.render();
            let mut g = va.generator();
            g.update(&data);
            let mut line = String::new();
            for oi in 0..32 {
                line.push_str(&res_h(&g.finalize(Opts::from_index(oi)), n));
                line.push(';');
            }
            core.push((format!("{} finalize {}", v.name, d.to_json()), line));
            if let Some(r) = va.hash_buf(&data) {
                easy.push((format!("{} hash_buf {}", v.name, d.to_json()), res_h(&r, n)));
            }
        }
        // comparison and formatting
        for (a, b) in ctx.sample_values(&format!("tr-pair/{}", v.name), 700 * k, &gens::hash_pair_strategy(v)) {
            let (ha, hb) = (va.try_from_array(&a), va.try_from_array(&b));
            let line = match (&ha, &hb) {
                (Ok(x), Ok(y)) => {
                    let mut buf = vec![0u8; v.len_str() + 3];
                    let r1 = x.store_str(&mut buf, Prefix::WithVersion);
                    let text = hex(&buf);
                    let mut small = vec![0u8; v.len_hex() - 1];
                    let r2 = y.store_str(&mut small, Prefix::Empty);
                    format!("{} {} {:?} {:?} {} {:?} {}", x.compare(y.as_ref(), false), x.compare(y.as_ref(), true), x.compare_parts(y.as_ref()), r1, text, r2, x.display())
                }
                _ => format!("{} {}", res_h(&ha, n), res_h(&hb, n)),
            };
            core.push((format!("{} pair {} {}", v.name, hex(&a), hex(&b)), line));
        }
        // string helpers
        for (l, r) in ctx.sample_values(&format!("tr-str/{}", v.name), 300 * k, &(gens::utf8_text_strategy(v), gens::utf8_text_strategy(v))) {
            if let Some(x) = va.compare_with(&l, &r) {
                easy.push((format!("{} compare_with {:?} {:?}", v.name, l, r), format!("{:?}", x)));
            }
        }
    }
    for n in ctx.sample_values("tr-len", 2000 * k, &any::<u32>()).into_iter().enumerate().map(|(i, r)| r >> (i % 32)) {
        core.push((format!("len {}", n), format!("{:?} {:?}", api.len_new(n), api.len_try_from(n))));
    }
    core.push(("error displays".into(), api.error_displays().iter().take(10).cloned().collect::<Vec<_>>().join("|")));
    if api.caps().easy {
        easy.push(("error displays (easy)".into(), api.error_displays().join("|")));
    }
    (core, easy)
}

fn run_transcript(ctx: &Ctx) -> CheckResult {
    let (core, easy) = transcript_records(ctx);
    let dig = |v: &[(String, String)]| -> Vec<u64> { v.iter().map(|(k, r)| fnv_mix(fnv(k.as_bytes()), fnv(r.as_bytes()))).collect() };
    {
        let mut ev = ctx.ev.borrow_mut();
        ev.evaluations += (core.len() + easy.len()) as u64;
        ev.nontrivial_enumerated += (core.len() + easy.len()) as u64;
        ev.sample(json!({"check": "transcript", "record": core[1].0, "result": core[1].1}));
    }
    ctx.subcheck("transcript", (core.len() + easy.len()) as u64);
    if let Ok(td) = std::env::var("VERIF_TRANSCRIPT_DIR") {
        let _ = std::fs::create_dir_all(&td);
        let name = ctx.config.replace('@', "_");
        let out = json!({"core": dig(&core), "easy": if ctx.api.caps().easy { json!(dig(&easy)) } else { Value::Null }});
        std::fs::write(format!("{}/c07-{}.digests.json", td, name), serde_json::to_string(&out).unwrap()).expect("write transcript");
        let full = json!({"core": core, "easy": easy});
        std::fs::write(format!("{}/c07-{}.records.json", td, name), serde_json::to_string(&full).unwrap()).expect("write transcript records");
    }
    Ok(())
}

// ---------------------------------------------------------------- racer

/// `probe race <seed>`: 16 threads behind a barrier; each thread's FIRST library call is
/// one of the dispatching operations; every result is compared with the model.
pub fn race(api: &dyn GlobalApi, seed: u64) -> i32 {
    use std::sync::{Arc, Barrier};
    let vs = api.variants();
    let threads = 16;
    let barrier = Arc::new(Barrier::new(threads));
    // inputs are prepared without touching the library
    let mut r = gens::Xs::new(seed);
    let mut jobs = Vec::new();
    // focus modes: a race on ONE dispatch point needs several threads to hit that point first.
    // mode 0: mixed operations; 1: every thread compares (one 32-byte or 64-byte body class);
    // 2: every thread finalizes (one bucket count); 3: every thread parses / formats
    let mode = seed % 4;
    let focus_variant = [1usize, 3, 0, 2, 4][(seed / 4 % 5) as usize];
    for t in 0..threads {
        let vi = if mode == 0 { r.below(5) as usize } else if r.below(4) == 0 { r.below(5) as usize } else { focus_variant };
        let v = vs[vi].v();
        let a: Vec<u8> = (0..v.size()).map(|_| r.byte()).collect();
        let b: Vec<u8> = (0..v.size()).map(|_| r.byte()).collect();
        let data: Vec<u8> = (0..300 + r.below(500)).map(|_| r.byte()).collect();
        let what = match mode {
            0 => r.below(4),
            1 => 0,
            2 => 1,
            _ => 2 + r.below(2),
        };
        jobs.push((t, vi, what, a, b, data, r.below(2000)));
    }
    let failures = std::sync::Mutex::new(Vec::<String>::new());
    std::thread::scope(|s| {
        for (t, vi, what, a, b, data, spin) in &jobs {
            let barrier = barrier.clone();
            let va = vs[*vi];
            let failures = &failures;
            s.spawn(move || {
                let v = va.v();
                barrier.wait();
                for _ in 0..*spin {
                    std::hint::spin_loop();
                }
                let res: Result<(), String> = (|| {
                    match what {
                        0 => {
                            // first call: compare (distance dispatch)
                            let (ha, hb) = (va.try_from_array(a).map_err(|e| format!("{:?}", e))?, va.try_from_array(b).map_err(|e| format!("{:?}", e))?);
                            let d = ha.compare(hb.as_ref(), false);
                            let m = vmodel::distance(&vmodel::Hash::from_bytes(v, a), &vmodel::Hash::from_bytes(v, b), false);
                            if d != m {
                                return Err(format!("compare = {} but reference = {}", d, m));
                            }
                        }
                        1 => {
                            // first call: finalize (aggregation dispatch)
                            let mut g = va.generator();
                            g.update(data);
                            let o = Opts::from_index(Opts::PERMISSIVE_INDEX);
                            compare_result("finalize", &g.finalize(o), &vmodel::hash(v, data, o))?;
                        }
                        2 => {
                            // first call: parse (hex-simd detection)
                            let s = vmodel::text::encode(v, a, true);
                            let h = va.from_str_bytes(&s, None).map_err(|e| format!("parse: {:?}", e))?;
                            if parts(h.as_ref()).to_bytes() != *a {
                                return Err("parse gave a different value".into());
                            }
                        }
                        _ => {
                            // first call: format
                            let h = va.try_from_array(a).map_err(|e| format!("{:?}", e))?;
                            if h.display().as_bytes() != &vmodel::text::encode(v, a, true)[..] {
                                return Err("format differs from the reference encoding".into());
                            }
                        }
                    }
                    Ok(())
                })();
                if let Err(m) = res {
                    failures.lock().unwrap().push(format!("thread {} ({}, op {}): {}", t, v.name, what, m));
                }
            });
        }
    });
    let f = failures.into_inner().unwrap();
    if f.is_empty() {
        println!("race ok");
        0
    } else {
        println!("{}", f.join("; "));
        1
    }
}

pub fn replay(ctx: &Ctx, check: &str, case: &Value) -> Result<(), String> {
    let live = Cell::new(true);
    let st = ctx.stats("replay", &live);
    if let Some((id, rest)) = check.split_once('/') {
        return match id {
            "C01" => super::c01::replay(ctx, rest, case),
            "C02" => super::c02::replay(ctx, rest, case),
            "C04" => super::c04::replay(ctx, rest, case),
            "C05" => super::c05::replay(ctx, rest, case),
            "C06" => super::c06::replay(ctx, rest, case),
            "C14" => super::c14::replay(ctx, rest, case),
            _ => Err(format!("unknown leg {}", id)),
        };
    }
    match check {
        "aggbackends" => {
            let va = super::codec::variant_of(ctx.api, case)?;
            let c: AggCase = serde_json::from_value(case.get("agg").cloned().ok_or("no agg")?).map_err(|e| e.to_string())?;
            case_agg(va, &c, &st)
        }
        _ => Err(format!("check {} is replayed by the driver", check)),
    }
}
