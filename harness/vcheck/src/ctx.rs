//! Run context: evidence accounting, deterministic seeding, proptest driver.

use crate::api::GlobalApi;
use proptest::strategy::{Strategy, ValueTree};
use proptest::test_runner::{Config, RngAlgorithm, TestCaseError, TestError, TestRng, TestRunner};
use serde_json::{json, Value};
use std::cell::{Cell, RefCell};
use std::collections::{BTreeMap, HashSet};

#[derive(Debug, Clone, Copy, PartialEq, Eq)]
pub enum Tier {
    Quick,
    Thorough,
}

impl Tier {
    /// Picks a size by tier.
    pub fn pick<T>(self, quick: T, thorough: T) -> T {
        match self {
            Tier::Quick => quick,
            Tier::Thorough => thorough,
        }
    }
}

/// A violation found by a check (after shrinking).
#[derive(Debug, Clone)]
pub struct Violation {
    pub property: String,
    pub check: String,
    pub message: String,
    /// The minimal failing case, replayable by `probe replay`.
    pub case: Value,
}

/// FNV-1a, used for case digests (stable across runs and platforms).
pub fn fnv(bytes: &[u8]) -> u64 {
    let mut h: u64 = 0xcbf29ce484222325;
    for &b in bytes {
        h ^= b as u64;
        h = h.wrapping_mul(0x100000001b3);
    }
    h
}

pub fn fnv_mix(h: u64, x: u64) -> u64 {
    let mut h = h;
    for b in x.to_le_bytes() {
        h ^= b as u64;
        h = h.wrapping_mul(0x100000001b3);
    }
    h
}

pub fn hex(b: &[u8]) -> String {
    let mut s = String::with_capacity(b.len() * 2);
    for x in b {
        s.push_str(&format!("{:02x}", x));
    }
    s
}

pub fn unhex(s: &str) -> Vec<u8> {
    (0..s.len() / 2).map(|i| u8::from_str_radix(&s[2 * i..2 * i + 2], 16).unwrap()).collect()
}

/// Evidence accumulated by one probe run for one property.
#[derive(Default)]
pub struct Evidence {
    pub evaluations: u64,
    pub nontrivial: HashSet<u64>,
    /// distinct non-trivial cases counted by construction (complete enumerations)
    pub nontrivial_enumerated: u64,
    pub classes: BTreeMap<String, u64>,
    pub samples: Vec<Value>,
    pub exhaustive: Vec<String>,
    pub subchecks: BTreeMap<String, u64>,
    pub notes: Vec<String>,
    pub skipped: Vec<String>,
    pub known_findings: Vec<String>,
    pub excluded_by_known_finding: u64,
}

impl Evidence {
    pub fn class(&mut self, name: &str) {
        *self.classes.entry(name.to_string()).or_insert(0) += 1;
    }
    pub fn class_n(&mut self, name: &str, n: u64) {
        *self.classes.entry(name.to_string()).or_insert(0) += n;
    }
    pub fn sample(&mut self, v: Value) {
        // keep the first few and then every so often (bounded)
        if self.samples.len() < 12 {
            self.samples.push(v);
        }
    }
    pub fn to_json(&self) -> Value {
        json!({
            "evaluations": self.evaluations,
            "distinct_nontrivial": self.nontrivial.len() as u64 + self.nontrivial_enumerated,
            "classes": self.classes,
            "samples": self.samples,
            "exhaustive_subspaces": self.exhaustive,
            "subchecks": self.subchecks,
            "notes": self.notes,
            "skipped": self.skipped,
            "known_findings": self.known_findings,
            "excluded_by_known_finding": self.excluded_by_known_finding,
        })
    }
}

/// Per-case statistics handle given to property closures.
pub struct CaseStats<'a> {
    ev: Option<&'a RefCell<Evidence>>,
    live: Option<&'a Cell<bool>>,
    salt: u64,
}

impl CaseStats<'static> {
    /// A sink that records nothing (for worker threads; the caller counts by construction).
    pub fn null() -> CaseStats<'static> {
        CaseStats { ev: None, live: None, salt: 0 }
    }
}

impl<'a> CaseStats<'a> {
    /// Counts one evaluation (one oracle comparison unit).
    fn on(&self) -> Option<&'a RefCell<Evidence>> {
        match (self.ev, self.live) {
            (Some(ev), Some(l)) if l.get() => Some(ev),
            _ => None,
        }
    }
    pub fn eval(&self) {
        if let Some(ev) = self.on() {
            ev.borrow_mut().evaluations += 1;
        }
    }
    pub fn evals(&self, n: u64) {
        if let Some(ev) = self.on() {
            ev.borrow_mut().evaluations += n;
        }
    }
    pub fn class(&self, name: &str) {
        if let Some(ev) = self.on() {
            ev.borrow_mut().class(name);
        }
    }
    /// Records a non-trivial case by digest.
    pub fn nontrivial(&self, digest: u64) {
        if let Some(ev) = self.on() {
            ev.borrow_mut().nontrivial.insert(fnv_mix(self.salt, digest));
        }
    }
    pub fn sample(&self, f: impl FnOnce() -> Value) {
        if let Some(ev) = self.on() {
            let mut ev = ev.borrow_mut();
            if ev.samples.len() < 12 {
                let v = f();
                ev.samples.push(v);
            }
        }
    }
    pub fn excluded(&self) {
        if let Some(ev) = self.on() {
            ev.borrow_mut().excluded_by_known_finding += 1;
        }
    }
}

pub struct Ctx<'a> {
    pub api: &'a dyn GlobalApi,
    pub tier: Tier,
    pub seed: u64,
    pub property: String,
    pub config: String,
    pub ev: RefCell<Evidence>,
    /// known findings (open) applying to this property, from known_findings.json
    pub known: Vec<Value>,
    pub threads: usize,
}

impl<'a> Ctx<'a> {
    pub fn new(api: &'a dyn GlobalApi, property: &str, tier: Tier, seed: u64, known: Vec<Value>) -> Self {
        let config = api.caps().config;
        Ctx {
            api,
            tier,
            seed,
            property: property.to_string(),
            config,
            ev: RefCell::new(Evidence::default()),
            known,
            threads: std::thread::available_parallelism().map(|n| n.get()).unwrap_or(4).min(16),
        }
    }

    pub fn violation(&self, check: &str, message: String, case: Value) -> Violation {
        Violation { property: self.property.clone(), check: check.to_string(), message, case }
    }

    /// Seed for a named stream: a pure function of (VERIF_SEED, property, stream).
    /// Deliberately independent of the build configuration, so that every
    /// configuration sees identical inputs (needed by C07's transcript leg).
    pub fn stream_seed(&self, stream: &str) -> [u8; 32] {
        let mut out = [0u8; 32];
        let base = fnv_mix(fnv(self.property.as_bytes()), self.seed);
        let mut h = fnv_mix(fnv(stream.as_bytes()), base);
        for chunk in out.chunks_mut(8) {
            h = fnv_mix(h, 0x9E3779B97F4A7C15);
            chunk.copy_from_slice(&h.to_le_bytes());
        }
        out
    }

    pub fn rng(&self, stream: &str) -> TestRng {
        TestRng::from_seed(RngAlgorithm::ChaCha, &self.stream_seed(stream))
    }

    fn salt(&self, stream: &str) -> u64 {
        fnv_mix(fnv(self.config.as_bytes()), fnv(stream.as_bytes()))
    }

    pub fn stats<'b>(&'b self, stream: &str, live: &'b Cell<bool>) -> CaseStats<'b> {
        CaseStats { ev: Some(&self.ev), live: Some(live), salt: self.salt(stream) }
    }

    pub fn note(&self, s: impl Into<String>) {
        self.ev.borrow_mut().notes.push(s.into());
    }
    pub fn skipped(&self, s: impl Into<String>) {
        self.ev.borrow_mut().skipped.push(s.into());
    }
    pub fn exhaustive(&self, s: impl Into<String>) {
        self.ev.borrow_mut().exhaustive.push(s.into());
    }
    pub fn subcheck(&self, name: &str, n: u64) {
        *self.ev.borrow_mut().subchecks.entry(name.to_string()).or_insert(0) += n;
    }

    /// Runs a property over `cases` generated values with shrinking.
    ///
    /// `f` returns `Err(message)` on a violation.  Panics inside `f` are
    /// violations too (message = the panic payload).  `to_case` renders the
    /// (shrunk) value as the replayable JSON case.
    pub fn pt_run<S, F, C>(&self, check: &str, stream: &str, cases: u32, strat: S, to_case: C, f: F) -> Result<(), Violation>
    where
        S: Strategy,
        S::Value: Clone,
        F: Fn(&S::Value, &CaseStats) -> Result<(), String>,
        C: Fn(&S::Value) -> Value,
    {
        let mut config = Config::default();
        config.cases = cases;
        config.failure_persistence = None;
        config.max_shrink_iters = 4096;
        config.max_local_rejects = 1;
        config.max_global_rejects = 1;
        config.verbose = 0;
        let mut runner = TestRunner::new_with_rng(config, self.rng(stream));
        let live = Cell::new(true);
        let stats = self.stats(stream, &live);
        let message = RefCell::new(String::new());
        let result = runner.run(&strat, |value| {
            let r = std::panic::catch_unwind(std::panic::AssertUnwindSafe(|| f(&value, &stats)));
            let r = match r {
                Ok(r) => r,
                Err(p) => Err(format!("panic: {}", panic_message(&p))),
            };
            match r {
                Ok(()) => Ok(()),
                Err(m) => {
                    // stop counting: the closure re-runs during shrinking
                    live.set(false);
                    *message.borrow_mut() = m.clone();
                    Err(TestCaseError::fail(m))
                }
            }
        });
        self.subcheck(check, cases as u64);
        match result {
            Ok(()) => Ok(()),
            Err(TestError::Fail(_reason, value)) => {
                // re-run on the minimal value to get its own message
                let msg = match std::panic::catch_unwind(std::panic::AssertUnwindSafe(|| f(&value, &stats))) {
                    Ok(Ok(())) => message.borrow().clone(),
                    Ok(Err(m)) => m,
                    Err(p) => format!("panic: {}", panic_message(&p)),
                };
                Err(self.violation(check, msg, to_case(&value)))
            }
            Err(TestError::Abort(reason)) => {
                // an abort is an infrastructure problem (too many rejects): make it loud
                panic!("proptest aborted in {}: {}", check, reason);
            }
        }
    }

    /// Generates `n` values from a strategy without running a property
    /// (for enumerations that want a few random backgrounds).
    pub fn sample_values<S: Strategy>(&self, stream: &str, n: usize, strat: &S) -> Vec<S::Value> {
        let mut config = Config::default();
        config.failure_persistence = None;
        let mut runner = TestRunner::new_with_rng(config, self.rng(stream));
        (0..n).map(|_| strat.new_tree(&mut runner).expect("strategy").current()).collect()
    }
}

pub fn panic_message(p: &Box<dyn std::any::Any + Send>) -> String {
    if let Some(s) = p.downcast_ref::<&str>() {
        s.to_string()
    } else if let Some(s) = p.downcast_ref::<String>() {
        s.clone()
    } else {
        "<non-string panic payload>".to_string()
    }
}

/// Runs `f` catching a panic; returns the panic message on panic.
pub fn catch<T>(f: impl FnOnce() -> T) -> Result<T, String> {
    std::panic::catch_unwind(std::panic::AssertUnwindSafe(f)).map_err(|p| panic_message(&p))
}
