//! Shared generators (construction, not rejection).
//!
//! Every random choice is made by a proptest strategy.  Large payloads are a
//! deterministic expansion (`Xs`) of a proptest-chosen seed: still a pure
//! function of proptest's choices, so shrinking and replay work, but cheap to
//! generate and shrink.

use crate::api::GenState;
use proptest::collection::vec;
use proptest::prelude::*;
use vmodel::Variant;

/// xorshift64* used only to expand a proptest-chosen seed into bulk bytes.
#[derive(Clone)]
pub struct Xs(pub u64);
impl Xs {
    pub fn new(seed: u64) -> Xs {
        Xs(seed ^ 0x9E3779B97F4A7C15 | 1)
    }
    pub fn next(&mut self) -> u64 {
        let mut x = self.0;
        x ^= x >> 12;
        x ^= x << 25;
        x ^= x >> 27;
        self.0 = x;
        x.wrapping_mul(0x2545F4914F6CDD1D)
    }
    pub fn below(&mut self, n: u64) -> u64 {
        (self.next() >> 11) % n.max(1)
    }
    pub fn byte(&mut self) -> u8 {
        (self.next() >> 32) as u8
    }
}

#[derive(Clone, Debug, PartialEq, Eq, serde::Serialize, serde::Deserialize)]
pub enum Kind {
    Uniform,
    /// small alphabet of k symbols
    Alphabet(u8),
    /// period p, noise bytes per 1024
    Periodic(u8, u8),
    Text,
    Runs,
    /// concatenation of differently distributed blocks
    Mixed,
    /// long runs of one byte value (lengths around 16 .. 65537, i.e. around the thresholds a
    /// run-length or "all windows alike" fast path would use) separated by short fragments over
    /// the two-letter alphabet {run byte, other byte}: the contexts (b,b,x,b), (x,b,b,b), ...
    LongRuns,
}

#[derive(Clone, Debug, PartialEq, Eq, serde::Serialize, serde::Deserialize)]
pub struct DataSpec {
    pub kind: Kind,
    pub len: usize,
    pub seed: u64,
    /// fully explicit (shrinkable byte by byte) data; overrides the expansion
    pub explicit: Option<Vec<u8>>,
}

fn fill(kind: &Kind, len: usize, rng: &mut Xs, out: &mut Vec<u8>) {
    match kind {
        Kind::Uniform => {
            for _ in 0..len {
                out.push(rng.byte());
            }
        }
        Kind::Alphabet(k) => {
            let k = (*k).max(1) as usize;
            let syms: Vec<u8> = (0..k).map(|_| rng.byte()).collect();
            for _ in 0..len {
                out.push(syms[rng.below(k as u64) as usize]);
            }
        }
        Kind::Periodic(p, noise) => {
            let p = (*p).max(1) as usize;
            let period: Vec<u8> = (0..p).map(|_| rng.byte()).collect();
            let start = out.len();
            for i in 0..len {
                out.push(period[i % p]);
            }
            let n_noise = (len * (*noise as usize)) / 1024;
            for _ in 0..n_noise {
                let pos = start + rng.below(len as u64) as usize;
                out[pos] = rng.byte();
            }
        }
        Kind::Text => {
            const WORDS: &[&str] = &[
                "the", "quick", "brown", "fox", "jumps", "over", "lazy", "dog", "lorem", "ipsum", "dolor", "sit", "amet",
                "TLSH", "hash", "0123456789", "\n", ", ", ". ", "A", "zz",
            ];
            let start = out.len();
            while out.len() - start < len {
                let w = WORDS[rng.below(WORDS.len() as u64) as usize];
                out.extend_from_slice(w.as_bytes());
                out.push(b' ');
            }
            out.truncate(start + len);
        }
        Kind::Runs => {
            let start = out.len();
            while out.len() - start < len {
                let b = rng.byte();
                let n = 1 + rng.below(40) as usize;
                for _ in 0..n {
                    out.push(b);
                }
            }
            out.truncate(start + len);
        }
        Kind::LongRuns => {
            const RUNS: &[usize] = &[15, 16, 17, 31, 32, 33, 63, 64, 65, 255, 256, 257, 1023, 1024, 1025, 4095, 4096, 4097, 8192, 65535, 65536, 65537];
            let start = out.len();
            let (b, x) = (rng.byte(), rng.byte());
            while out.len() - start < len {
                for _ in 0..rng.below(9) {
                    out.push(if rng.below(3) == 0 { x } else { b });
                }
                let room = len - (out.len() - start).min(len);
                // prefer the longest thresholds that still fit
                let fit: Vec<usize> = RUNS.iter().copied().filter(|&r| r <= room).collect();
                let n = if fit.is_empty() { room } else { fit[fit.len() - 1 - rng.below(fit.len().min(6) as u64) as usize] };
                let rb = if rng.below(4) == 0 { x } else { b };
                for _ in 0..n {
                    out.push(rb);
                }
            }
            out.truncate(start + len);
        }
        Kind::Mixed => {
            let start = out.len();
            let mut remaining = len;
            while remaining > 0 {
                let n = (1 + rng.below(remaining as u64 / 2 + 1) as usize).min(remaining);
                let k = match rng.below(5) {
                    0 => Kind::Uniform,
                    1 => Kind::Alphabet(1 + rng.below(8) as u8),
                    2 => Kind::Periodic(1 + rng.below(64) as u8, rng.below(30) as u8),
                    3 => Kind::Text,
                    _ => Kind::Runs,
                };
                fill(&k, n, rng, out);
                remaining -= n;
            }
            debug_assert_eq!(out.len() - start, len);
        }
    }
}

impl DataSpec {
    pub fn render(&self) -> Vec<u8> {
        if let Some(e) = &self.explicit {
            return e.clone();
        }
        let mut out = Vec::with_capacity(self.len);
        let mut rng = Xs::new(self.seed);
        fill(&self.kind, self.len, &mut rng, &mut out);
        out
    }
    pub fn explicit(d: Vec<u8>) -> DataSpec {
        DataSpec { kind: Kind::Uniform, len: d.len(), seed: 0, explicit: Some(d) }
    }
    pub fn to_json(&self) -> serde_json::Value {
        let d = self.render();
        if d.len() <= 2048 {
            serde_json::json!({"hex": crate::ctx::hex(&d)})
        } else {
            serde_json::json!({"spec": self, "len": d.len(), "fnv": crate::ctx::fnv(&d)})
        }
    }
    pub fn from_json(v: &serde_json::Value) -> Option<DataSpec> {
        if let Some(h) = v.get("hex").and_then(|x| x.as_str()) {
            return Some(DataSpec::explicit(crate::ctx::unhex(h)));
        }
        serde_json::from_value(v.get("spec")?.clone()).ok()
    }
}

pub fn kind_strategy() -> impl Strategy<Value = Kind> {
    prop_oneof![
        3 => Just(Kind::Uniform),
        2 => (1u8..=8).prop_map(Kind::Alphabet),
        2 => (1u8..=64, 0u8..40).prop_map(|(p, n)| Kind::Periodic(p, n)),
        1 => Just(Kind::Text),
        1 => Just(Kind::Runs),
        2 => Just(Kind::Mixed),
    ]
}

/// Interesting exact lengths for variant `v` up to `max`.
pub fn special_lengths(v: Variant, max: usize) -> Vec<usize> {
    let mut s = vec![0, 1, 3, 4, 5, 6, 9, 10, 11];
    for m in [v.min_len(), v.min_len_conservative()] {
        s.push(m as usize - 1);
        s.push(m as usize);
        s.push(m as usize + 1);
    }
    for &t in vmodel::TOPVAL.iter() {
        if (t as usize) < max {
            s.push(t as usize);
            s.push(t as usize + 1);
        }
    }
    // block-processing boundaries: powers of two and small multiples, alone and shifted by the
    // 4-byte tail (an implementation that switches to block-wise processing changes path here)
    for j in 4..=16u32 {
        let p = 1usize << j;
        for m in [1usize, 2, 3, 5] {
            for d in [-1i64, 0, 1, 3, 4, 5] {
                let x = (p * m) as i64 + d;
                if x >= 0 {
                    s.push(x as usize);
                }
            }
        }
    }
    s.retain(|&x| x <= max);
    s.sort_unstable();
    s.dedup();
    s
}

/// Length strategy: classes with extra weight where thresholds live.
pub fn len_strategy(v: Variant, max: usize) -> BoxedStrategy<usize> {
    let special = special_lengths(v, max);
    let hi = max.max(12);
    prop_oneof![
        1 => 0usize..=4,
        1 => 5usize..=9,
        4 => 10usize..=49.min(hi),
        6 => 20usize..=60.min(hi),
        3 => 50usize..=127.min(hi),
        3 => 128usize..=1000.min(hi),
        1 => 1000usize.min(hi)..=hi,
        3 => proptest::sample::select(special),
    ]
    .boxed()
}

/// `gen_data`: the shared input-data generator.
pub fn data_strategy(v: Variant, max: usize) -> BoxedStrategy<DataSpec> {
    let small = vec(any::<u8>(), 0..=64).prop_map(DataSpec::explicit);
    let small_alpha = (vec(0u8..4, 0..=120), any::<u8>())
        .prop_map(|(idx, base)| DataSpec::explicit(idx.into_iter().map(|i| base.wrapping_add(i.wrapping_mul(37))).collect()));
    let bulk = (kind_strategy(), len_strategy(v, max), any::<u64>())
        .prop_map(|(kind, len, seed)| DataSpec { kind, len, seed, explicit: None });
    let longruns = (prop_oneof![Just(max.saturating_mul(12).clamp(64, 70_000)), Just(max.saturating_mul(3).clamp(64, 70_000)), 64usize..=max.max(65)], any::<u64>())
        .prop_map(|(len, seed)| DataSpec { kind: Kind::LongRuns, len, seed, explicit: None });
    prop_oneof![1 => small, 1 => small_alpha, 6 => bulk, 1 => longruns].boxed()
}

// ---------------------------------------------------------------- states

#[derive(Clone, Debug, PartialEq, Eq, serde::Serialize, serde::Deserialize)]
pub enum BucketClass {
    AllEqual,
    TwoValued,
    /// exactly k non-zero buckets among the effective ones
    Sparse(u16),
    SmallTies,
    /// counts in [2^24, 2^26): f32 and integer ratios diverge
    F32Diverge,
    /// counts >= 42_949_673: q*100 wraps in 32 bits
    Wrap100,
    /// counts >= 2^31: signed SIMD compare hazard
    High,
    /// counts at or near u32::MAX
    Max,
    Uniform,
    /// a plausible profile for `len` bytes: counts sum to about 6*len
    Plausible,
}

#[derive(Clone, Debug, PartialEq, Eq, serde::Serialize, serde::Deserialize)]
pub enum LenClass {
    BelowMin,
    Boundary(u8, bool),
    Mid,
    Big,
    NearMax(i64),
    AboveMax,
    Exact(u32),
    /// 2^32 bytes or more: the counter is saturated, the length is unknown
    Saturated,
}

#[derive(Clone, Debug, PartialEq, Eq, serde::Serialize, serde::Deserialize)]
pub struct StateSpec {
    pub buckets: BucketClass,
    pub len: LenClass,
    pub seed: u64,
}

impl StateSpec {
    /// Total byte count this state pretends to have consumed (>= 4).
    pub fn total_len(&self, v: Variant) -> u64 {
        let mut rng = Xs::new(self.seed ^ 0x1234);
        let n = match &self.len {
            LenClass::BelowMin => 4 + rng.below(v.min_len().saturating_sub(4).max(1)),
            LenClass::Boundary(i, plus) => {
                let t = vmodel::TOPVAL[(*i as usize) % 170] as u64;
                (t + *plus as u64).min(u32::MAX as u64)
            }
            LenClass::Mid => 128 + rng.below(1 << 20),
            LenClass::Big => (1u64 << 31) + rng.below(vmodel::MAX_LEN - (1u64 << 31)),
            LenClass::NearMax(d) => (vmodel::MAX_LEN as i64 + *d) as u64,
            LenClass::AboveMax => vmodel::MAX_LEN + 1 + rng.below((1u64 << 32) - vmodel::MAX_LEN - 1),
            LenClass::Exact(n) => *n as u64,
            LenClass::Saturated => return 1u64 << 32,
        };
        n.clamp(4, u32::MAX as u64)
    }

    pub fn render(&self, v: Variant) -> GenState {
        let mut rng = Xs::new(self.seed);
        let n = v.buckets;
        let mut b = vec![0u32; 256];
        let big = |rng: &mut Xs, lo: u64, hi: u64| -> u32 { (lo + rng.below(hi - lo)) as u32 };
        match &self.buckets {
            BucketClass::AllEqual => {
                let x = rng.below(5) as u32 * (1 + rng.below(1000) as u32);
                b.iter_mut().for_each(|v| *v = x);
            }
            BucketClass::TwoValued => {
                let x = rng.next() as u32 >> rng.below(32);
                let y = rng.next() as u32 >> rng.below(32);
                b.iter_mut().for_each(|v| *v = if rng.below(2) == 0 { x } else { y });
            }
            BucketClass::Sparse(k) => {
                let k = (*k as usize).min(n);
                // choose k distinct positions among the effective buckets
                let mut pos: Vec<usize> = (0..n).collect();
                for i in 0..k {
                    let j = i + rng.below((n - i) as u64) as usize;
                    pos.swap(i, j);
                }
                for &p in &pos[..k] {
                    b[p] = 1 + rng.below(6) as u32;
                }
                // physical-only buckets may hold anything
                for p in n..256 {
                    b[p] = rng.below(4) as u32;
                }
            }
            BucketClass::SmallTies => b.iter_mut().for_each(|v| *v = rng.below(4) as u32),
            BucketClass::F32Diverge => b.iter_mut().for_each(|v| *v = big(&mut rng, 1 << 24, 1 << 26)),
            BucketClass::Wrap100 => b.iter_mut().for_each(|v| *v = big(&mut rng, 42_949_673, 1 << 31)),
            BucketClass::High => b.iter_mut().for_each(|v| {
                *v = if rng.below(3) == 0 { big(&mut rng, 0, 1 << 31) } else { big(&mut rng, 1 << 31, 1 << 32) }
            }),
            BucketClass::Max => b.iter_mut().for_each(|v| *v = u32::MAX - rng.below(3) as u32 * rng.below(2) as u32),
            BucketClass::Uniform => b.iter_mut().for_each(|v| *v = rng.next() as u32 >> rng.below(33).min(31)),
            BucketClass::Plausible => {
                let total = self.total_len(v).saturating_sub(4).saturating_mul(6);
                let per = total / 256;
                b.iter_mut().for_each(|v| {
                    let jitter = rng.below(per / 8 + 3);
                    *v = (per + jitter).min(u32::MAX as u64) as u32
                });
            }
        }
        let total = self.total_len(v);
        let tail = [rng.byte(), rng.byte(), rng.byte(), rng.byte()];
        let mut checksum = vec![rng.byte(), rng.byte(), rng.byte()];
        if v.buckets == 48 {
            // reachable 48-bucket checksums are 0..=48
            checksum[0] %= 49;
        }
        checksum.truncate(v.ck);
        GenState { buckets: b, len: (total - 4) as u32, tail, tail_len: 4, checksum }
    }
}

pub fn state_strategy(v: Variant) -> BoxedStrategy<StateSpec> {
    let n = v.buckets as u16;
    let mn = v.min_nonzero() as u16;
    let buckets = prop_oneof![
        1 => Just(BucketClass::AllEqual),
        2 => Just(BucketClass::TwoValued),
        3 => prop_oneof![
            (0u16..=n),
            (n / 4 - 2..=n / 4 + 2),
            (mn - 2..=mn + 1),
            (n / 2 - 2..=n / 2 + 2),
        ].prop_map(BucketClass::Sparse),
        2 => Just(BucketClass::SmallTies),
        3 => Just(BucketClass::F32Diverge),
        2 => Just(BucketClass::Wrap100),
        2 => Just(BucketClass::High),
        1 => Just(BucketClass::Max),
        2 => Just(BucketClass::Uniform),
        2 => Just(BucketClass::Plausible),
    ];
    let len = prop_oneof![
        1 => Just(LenClass::BelowMin),
        3 => (0u8..170, any::<bool>()).prop_map(|(i, p)| LenClass::Boundary(i, p)),
        3 => Just(LenClass::Mid),
        2 => Just(LenClass::Big),
        2 => (-3i64..=3).prop_map(LenClass::NearMax),
        1 => Just(LenClass::AboveMax),
        1 => Just(LenClass::Saturated),
    ];
    (buckets, len, any::<u64>()).prop_map(|(buckets, len, seed)| StateSpec { buckets, len, seed }).boxed()
}

// ---------------------------------------------------------------- hash bytes

/// Hash binary forms of variant `v`: uniform and structured.
pub fn hash_bytes_strategy(v: Variant) -> BoxedStrategy<Vec<u8>> {
    let n = v.size();
    let hdr = v.ck + 2;
    let uniform = vec(any::<u8>(), n);
    let structured = (vec(any::<u8>(), hdr), prop_oneof![Just(0x00u8), Just(0x55), Just(0xaa), Just(0xff), Just(0x1b), Just(0xe4), any::<u8>()], vec((0usize..n, any::<u8>()), 0..4))
        .prop_map(move |(h, fillb, pokes)| {
            let mut b = h;
            b.resize(n, fillb);
            for (p, x) in pokes {
                if p >= hdr {
                    b[p] = x;
                }
            }
            b
        });
    prop_oneof![3 => uniform, 1 => structured].boxed()
}

/// A pair of hashes: independent, near (k dibits / header fields changed) or extreme.
pub fn hash_pair_strategy(v: Variant) -> BoxedStrategy<(Vec<u8>, Vec<u8>)> {
    let n = v.size();
    let indep = (hash_bytes_strategy(v), hash_bytes_strategy(v));
    let near = (hash_bytes_strategy(v), vec((0usize..n, 0u8..8, 1u8..=255), 1..6)).prop_map(|(a, edits)| {
        let mut b = a.clone();
        for (p, sh, x) in edits {
            // change one dibit / nibble / byte depending on x
            if x & 1 == 0 {
                b[p] ^= (x & 3).max(1) << ((sh & 3) * 2);
            } else {
                b[p] = b[p].wrapping_add(x);
            }
        }
        (a, b)
    });
    let extreme = (any::<bool>(), any::<u8>()).prop_map(move |(flip, r)| {
        let a = vec![if flip { 0x00 } else { r }; n];
        let b: Vec<u8> = a.iter().map(|x| !x).collect();
        (a, b)
    });
    // identical bodies with independent headers, and identical headers with independent bodies
    // (fast paths keyed on "the bodies are equal" or "the headers are equal" live here)
    let hdr = v.ck + 2;
    let same_body = (hash_bytes_strategy(v), vec(any::<u8>(), hdr)).prop_map(move |(a, h)| {
        let mut b = a.clone();
        b[..hdr].copy_from_slice(&h);
        (a, b)
    });
    let same_header = (hash_bytes_strategy(v), hash_bytes_strategy(v)).prop_map(move |(a, mut b)| {
        b[..hdr].copy_from_slice(&a[..hdr]);
        (a, b)
    });
    prop_oneof![4 => indep, 4 => near, 1 => extreme, 1 => same_body, 1 => same_header].boxed()
}

// ---------------------------------------------------------------- text

#[derive(Clone, Debug, PartialEq, Eq, serde::Serialize, serde::Deserialize)]
pub enum Mut {
    /// flip the letter case at position p (mod len)
    FlipCase(u16),
    LowerAll,
    /// replace the byte at p by a byte of class c with selector x
    Replace(u16, u8, u8),
    /// replace the first two bytes by a prefix variant
    PrefixVariant(u8),
    Truncate(u16),
    Extend(Vec<u8>),
    InsertAt(u16, u8),
    RemoveAt(u16),
    /// prepend / append a short affix a lenient front end might strip (`trim*`, `strip_prefix` in a
    /// loop, `trim_start_matches("T1")`, line ends, radix markers)
    Prepend(u8),
    Append(u8),
    /// overwrite k consecutive bytes, starting at offset p (literal when p < 16, else scaled to
    /// the string), by one k-byte UTF-8 character: the byte length stays what it was
    Utf8At(u16, u8),
}

/// Multi-byte characters for `Mut::Utf8At` (2-, 3- and 4-byte; some are digits in Unicode).
pub const UTF8_CHARS: &[&str] = &["\u{e9}", "\u{660}", "\u{20ac}", "\u{ff11}", "\u{ff21}", "\u{1f600}", "\u{1d7d8}", "\u{80}", "\u{7ff}"];

pub fn nasty_byte(class: u8, x: u8) -> u8 {
    const NEAR: &[u8] = b"/:@G`g[{ \t\n-+_.,xXhH";
    const TWINS: &[u8] = &[0xB0, 0xB1, 0xB9, 0xC1, 0xC6, 0xE1, 0xE6, 0x80, 0x81, 0xFE];
    match class % 6 {
        0 => x,
        1 => NEAR[x as usize % NEAR.len()],
        2 => TWINS[x as usize % TWINS.len()],
        3 => 0,
        4 => 0xFF,
        _ => b"0123456789abcdefABCDEF"[x as usize % 22],
    }
}

#[derive(Clone, Debug, PartialEq, Eq, serde::Serialize, serde::Deserialize)]
pub struct TextSpec {
    /// binary form the valid base string is encoded from
    pub base: Vec<u8>,
    pub with_prefix: bool,
    pub muts: Vec<Mut>,
    /// arbitrary bytes instead of a mutated valid string
    pub raw: Option<Vec<u8>>,
}

impl TextSpec {
    pub fn render(&self, v: Variant) -> Vec<u8> {
        if let Some(r) = &self.raw {
            return r.clone();
        }
        let mut base = self.base.clone();
        base.resize(v.size(), 0);
        let mut s = vmodel::text::encode(v, &base, self.with_prefix);
        for m in &self.muts {
            match m {
                Mut::FlipCase(p) => {
                    if !s.is_empty() {
                        let p = *p as usize % s.len();
                        if s[p].is_ascii_alphabetic() {
                            s[p] ^= 0x20;
                        }
                    }
                }
                Mut::LowerAll => s.iter_mut().for_each(|c| *c = c.to_ascii_lowercase()),
                Mut::Replace(p, c, x) => {
                    if !s.is_empty() {
                        let p = *p as usize % s.len();
                        s[p] = nasty_byte(*c, *x);
                    }
                }
                Mut::PrefixVariant(k) => {
                    const PV: &[&[u8; 2]] = &[b"T2", b"t1", b"T0", b"1T", b"TT", b"T1", b"11", b"\0\0", b"T\xb1"];
                    if s.len() >= 2 {
                        s[..2].copy_from_slice(PV[*k as usize % PV.len()]);
                    }
                }
                Mut::Truncate(n) => {
                    let n = *n as usize % (s.len() + 1);
                    s.truncate(n);
                }
                Mut::Extend(e) => s.extend_from_slice(e),
                Mut::InsertAt(p, x) => {
                    let p = *p as usize % (s.len() + 1);
                    s.insert(p, *x);
                }
                Mut::RemoveAt(p) => {
                    if !s.is_empty() {
                        let p = *p as usize % s.len();
                        s.remove(p);
                    }
                }
                Mut::Prepend(k) => {
                    const PRE: &[&[u8]] = &[b"T1", b"T1T1", b"t1", b" ", b"\t", b"T", b"1", b"0x", b"\n", b"+", b"\xef\xbb\xbf"];
                    let a = PRE[*k as usize % PRE.len()];
                    s.splice(0..0, a.iter().copied());
                }
                Mut::Append(k) => {
                    const POST: &[&[u8]] = &[b"\n", b"\r\n", b" ", b"\0", b"T1", b"00", b"\t", b";"];
                    s.extend_from_slice(POST[*k as usize % POST.len()]);
                }
                Mut::Utf8At(p, k) => {
                    let c = UTF8_CHARS[*k as usize % UTF8_CHARS.len()].as_bytes();
                    if s.len() >= c.len() {
                        let room = s.len() - c.len();
                        let p = if *p < 16 { (*p as usize).min(room) } else { idx(*p, room + 1) };
                        s[p..p + c.len()].copy_from_slice(c);
                    }
                }
            }
        }
        s
    }
}

pub fn mut_strategy() -> impl Strategy<Value = Mut> {
    prop_oneof![
        4 => any::<u16>().prop_map(Mut::FlipCase),
        1 => Just(Mut::LowerAll),
        6 => (any::<u16>(), any::<u8>(), any::<u8>()).prop_map(|(p, c, x)| Mut::Replace(p, c, x)),
        2 => any::<u8>().prop_map(Mut::PrefixVariant),
        1 => any::<u16>().prop_map(Mut::Truncate),
        1 => vec(any::<u8>(), 1..4).prop_map(Mut::Extend),
        1 => (any::<u16>(), any::<u8>()).prop_map(|(p, x)| Mut::InsertAt(p, x)),
        1 => any::<u16>().prop_map(Mut::RemoveAt),
        1 => utf8_mut_strategy(),
        1 => any::<u8>().prop_map(Mut::Prepend),
        1 => any::<u8>().prop_map(Mut::Append),
    ]
}

pub fn utf8_mut_strategy() -> impl Strategy<Value = Mut> {
    (prop_oneof![0u16..6, any::<u16>()], any::<u8>()).prop_map(|(p, k)| Mut::Utf8At(p, k))
}

/// `gen_text`: valid / mutated / arbitrary strings for variant `v`.
pub fn text_strategy(v: Variant) -> BoxedStrategy<TextSpec> {
    let n2 = v.len_str() * 2;
    let valid = (hash_bytes_strategy(v), any::<bool>(), vec(prop_oneof![any::<u16>().prop_map(Mut::FlipCase), Just(Mut::LowerAll)], 0..6))
        .prop_map(|(base, with_prefix, muts)| TextSpec { base, with_prefix, muts, raw: None });
    let mutated = (hash_bytes_strategy(v), any::<bool>(), vec(mut_strategy(), 1..5))
        .prop_map(|(base, with_prefix, muts)| TextSpec { base, with_prefix, muts, raw: None });
    let raw = prop_oneof![
        vec(any::<u8>(), 0..=n2),
        vec(prop_oneof![Just(b'0'), Just(b'F'), Just(b'a'), Just(b'T'), Just(b'1'), any::<u8>()], 0..=n2),
    ]
    .prop_map(|r| TextSpec { base: vec![], with_prefix: false, muts: vec![], raw: Some(r) });
    prop_oneof![3 => valid, 5 => mutated, 2 => raw].boxed()
}

/// Texts whose header sits at the two strict-parser gates (checksum 0x30/0x31/0xFF/0x00, length
/// code 0xA9/0xAA/0xFF/0x00), optionally with up to two non-hex characters in the body: in a
/// strict build, inputs with two or three faults at once (which one is reported is observable).
pub fn gated_text_strategy(v: Variant) -> BoxedStrategy<Vec<u8>> {
    (
        hash_bytes_strategy(v),
        any::<bool>(),
        proptest::sample::select(vec![0x30u8, 0x31, 0xFF, 0x00]),
        proptest::sample::select(vec![0xA9u8, 0xAA, 0xFF, 0x00]),
        vec((any::<u16>(), proptest::sample::select(vec![b'G', b'@', b' ', b'g', 0x7f, 0x80])), 0..3),
    )
        .prop_map(move |(mut b, with, c, l, bad)| {
            b[0] = c;
            b[v.ck] = l;
            let mut t = vmodel::text::encode(v, &b, with);
            let first_body = t.len() - 2 * v.body();
            for (pos, ch) in bad {
                let i = first_body + idx(pos, 2 * v.body());
                t[i] = ch;
            }
            t
        })
        .boxed()
}

/// Strings restricted to valid UTF-8 (for the `&str` entry points).
pub fn utf8_text_strategy(v: Variant) -> BoxedStrategy<String> {
    let from_spec = text_strategy(v).prop_map(move |t| String::from_utf8_lossy(&t.render(v)).into_owned());
    let unicode = "\\PC{0,80}".prop_map(|s: String| s);
    // a valid string of the right byte length in which multi-byte characters replace digits
    // (valid UTF-8 by construction unless two replacements overlap; those are dropped by `lossy`)
    let multibyte = (hash_bytes_strategy(v), any::<bool>(), vec(utf8_mut_strategy(), 1..3))
        .prop_map(move |(base, with_prefix, muts)| String::from_utf8_lossy(&TextSpec { base, with_prefix, muts, raw: None }.render(v)).into_owned());
    prop_oneof![6 => from_spec, 2 => multibyte, 1 => unicode, 1 => Just(String::new())].boxed()
}

/// A monotone index map (shrinks well): maps a u16 to 0..len.
pub fn idx(i: u16, len: usize) -> usize {
    ((i as usize) * len) >> 16
}
