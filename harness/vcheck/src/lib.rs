//! vcheck — the checks (generated-input search against explicit oracles) for
//! the 18 properties, written against the object-safe API in `api`.

pub mod api;
pub mod checks;
pub mod ctx;
pub mod gens;
pub mod mockserde;
pub mod noalloc;

use api::GlobalApi;
use ctx::{Ctx, Tier, Violation};
use serde_json::{json, Value};
use std::time::Instant;

fn arg<'a>(args: &'a [String], name: &str) -> Option<&'a str> {
    args.iter().position(|a| a == name).and_then(|i| args.get(i + 1)).map(|s| s.as_str())
}

fn load_known(property: &str) -> Vec<Value> {
    let path = std::env::var("VERIF_KNOWN_FINDINGS").unwrap_or_else(|_| "/verif/known_findings.json".into());
    let Ok(text) = std::fs::read_to_string(&path) else { return vec![] };
    let Ok(v) = serde_json::from_str::<Value>(&text) else { return vec![] };
    v.get("open")
        .and_then(|o| o.as_array())
        .map(|a| a.iter().filter(|f| f.get("property").and_then(|p| p.as_str()) == Some(property)).cloned().collect())
        .unwrap_or_default()
}

/// Entry point of every probe binary.  Exit codes: 0 held, 1 violation, 2 infra.
pub fn probe_main(api: &dyn GlobalApi) -> i32 {
    let args: Vec<String> = std::env::args().collect();
    // quiet panic hook: panics inside library calls are caught and judged by the
    // checks; the default hook would flood stderr during shrinking
    let verbose_panics = std::env::var("VERIF_PANIC_VERBOSE").is_ok();
    if !verbose_panics {
        std::panic::set_hook(Box::new(|_| {}));
    }
    let cmd = args.get(1).map(|s| s.as_str()).unwrap_or("");
    match cmd {
        "caps" => {
            println!("{}", serde_json::to_string_pretty(&api.caps()).unwrap());
            0
        }
        "selftest" => match vmodel::selftest::run() {
            Ok(n) => {
                println!("model selftest ok ({} groups)", n);
                0
            }
            Err(e) => {
                eprintln!("MODEL SELFTEST FAILED: {}", e);
                2
            }
        },
        "run" => {
            let id = args.get(2).cloned().unwrap_or_default();
            let tier = match arg(&args, "--tier") {
                Some("thorough") => Tier::Thorough,
                _ => Tier::Quick,
            };
            let seed: u64 = arg(&args, "--seed").and_then(|s| s.parse().ok()).unwrap_or(0);
            let out = arg(&args, "--out").map(|s| s.to_string());
            let sub = arg(&args, "--sub").map(|s| s.to_string());
            if let Err(e) = vmodel::selftest::run() {
                eprintln!("MODEL SELFTEST FAILED: {}", e);
                return 2;
            }
            let t0 = Instant::now();
            let ctx = Ctx::new(api, &id, tier, seed, load_known(&id));
            let result = checks::run(&ctx, &id, sub.as_deref());
            let wall = t0.elapsed().as_secs_f64();
            let (code, violation) = match &result {
                Ok(()) => (0, Value::Null),
                Err(v) => (1, violation_json(v, &ctx)),
            };
            let report = json!({
                "property": id,
                "config": ctx.config,
                "caps": api.caps(),
                "tier": if tier == Tier::Quick { "quick" } else { "thorough" },
                "seed": seed,
                "wall_s": wall,
                "evidence": ctx.ev.borrow().to_json(),
                "violation": violation,
            });
            let text = serde_json::to_string_pretty(&report).unwrap();
            match out {
                Some(p) => std::fs::write(&p, text).expect("write report"),
                None => println!("{}", text),
            }
            code
        }
        "replay" => {
            let path = args.get(2).cloned().unwrap_or_default();
            let text = match std::fs::read_to_string(&path) {
                Ok(t) => t,
                Err(e) => {
                    eprintln!("cannot read {}: {}", path, e);
                    return 2;
                }
            };
            let v: Value = match serde_json::from_str(&text) {
                Ok(v) => v,
                Err(e) => {
                    eprintln!("bad replay file: {}", e);
                    return 2;
                }
            };
            let id = v.get("property").and_then(|x| x.as_str()).unwrap_or("").to_string();
            let ctx = Ctx::new(api, &id, Tier::Quick, 0, load_known(&id));
            match checks::replay(&ctx, &v) {
                Ok(()) => {
                    println!("replay: property {} holds on this case", id);
                    0
                }
                Err(viol) => {
                    println!("replay: VIOLATION property={} check={} : {}", viol.property, viol.check, viol.message);
                    1
                }
            }
        }
        other => checks::extra_command(api, other, &args),
    }
}

pub fn violation_json(v: &Violation, ctx: &Ctx) -> Value {
    json!({
        "property": v.property,
        "check": v.check,
        "config": ctx.config,
        "message": v.message,
        "case": v.case,
    })
}
