//! The object-safe API through which the checks see the crate under test.
//!
//! The probe binary implements these traits once per build configuration as a
//! thin pass-through to `tlsh` (no logic of its own); the checks in this crate
//! are compiled once and never depend on `tlsh` types.

use std::any::Any;
use std::io::Read;
use std::path::Path;

pub use vmodel::text::ParseErr as MErr;
pub use vmodel::{Options as Opts, Variant};

#[derive(Debug, Clone, Copy, PartialEq, Eq, Hash, PartialOrd, Ord, serde::Serialize, serde::Deserialize)]
pub enum PErr {
    LengthIsTooLarge,
    InvalidPrefix,
    InvalidCharacter,
    InvalidStringLength,
    InvalidChecksum,
    Unknown,
}

impl PErr {
    pub fn to_model(self) -> Option<MErr> {
        Some(match self {
            PErr::LengthIsTooLarge => MErr::LengthIsTooLarge,
            PErr::InvalidPrefix => MErr::InvalidPrefix,
            PErr::InvalidCharacter => MErr::InvalidCharacter,
            PErr::InvalidStringLength => MErr::InvalidStringLength,
            PErr::InvalidChecksum => MErr::InvalidChecksum,
            PErr::Unknown => return None,
        })
    }
}

#[derive(Debug, Clone, Copy, PartialEq, Eq, Hash, serde::Serialize, serde::Deserialize)]
pub enum GErr {
    TooLarge,
    TooSmall,
    HalfEmpty,
    ThreeQuarterEmpty,
    Unknown,
}

impl GErr {
    pub fn from_model(e: vmodel::GenError) -> GErr {
        match e {
            vmodel::GenError::TooLarge => GErr::TooLarge,
            vmodel::GenError::TooSmall => GErr::TooSmall,
            vmodel::GenError::HalfEmpty => GErr::HalfEmpty,
            vmodel::GenError::ThreeQuarterEmpty => GErr::ThreeQuarterEmpty,
        }
    }
}

/// `GeneratorError::category()`.
#[derive(Debug, Clone, Copy, PartialEq, Eq, Hash)]
pub enum GCat {
    DataLength,
    DataDistribution,
    Unknown,
}

#[derive(Debug, Clone, Copy, PartialEq, Eq, Hash)]
pub enum OErr {
    BufferIsTooSmall,
    Unknown,
}

#[derive(Debug, Clone, Copy, PartialEq, Eq, Hash, serde::Serialize, serde::Deserialize)]
pub enum Prefix {
    Empty,
    WithVersion,
}

#[derive(Debug, Clone, Copy, PartialEq, Eq, Hash)]
pub enum Validity {
    TooSmall,
    ValidWhenOptimistic,
    Valid,
    TooLarge,
}

#[derive(Debug, Clone, Copy, PartialEq, Eq, Hash)]
pub enum Side {
    Left,
    Right,
}

#[derive(Debug)]
pub enum StreamErr {
    Gen(GErr),
    Io(std::io::Error),
}

#[derive(Debug, Clone, Copy, PartialEq, Eq, Hash, serde::Serialize, serde::Deserialize)]
pub enum DistBackend {
    Dispatch,
    Pseudo32,
    Pseudo64,
    Sse2,
    Sse41,
    Avx2,
}
pub const DIST_BACKENDS: [DistBackend; 6] =
    [DistBackend::Dispatch, DistBackend::Pseudo32, DistBackend::Pseudo64, DistBackend::Sse2, DistBackend::Sse41, DistBackend::Avx2];

#[derive(Debug, Clone, Copy, PartialEq, Eq, Hash, serde::Serialize, serde::Deserialize)]
pub enum AggBackend {
    Dispatch,
    Naive,
    Sse2,
    Ssse3,
    Avx2,
}
pub const AGG_BACKENDS: [AggBackend; 5] = [AggBackend::Dispatch, AggBackend::Naive, AggBackend::Sse2, AggBackend::Ssse3, AggBackend::Avx2];

/// A hash value of the crate under test.
pub trait HashObj: Send {
    fn store_bytes(&self, out: &mut [u8]) -> Result<usize, OErr>;
    fn store_str(&self, out: &mut [u8], prefix: Prefix) -> Result<usize, OErr>;
    /// `format!("{}", h)`
    fn display(&self) -> String;
    /// `format!` with width / fill / alignment / precision / sign / alternate flags
    fn display_flags(&self) -> Vec<(&'static str, String)>;
    /// `h.to_string()`
    fn to_string_(&self) -> String;
    fn checksum(&self) -> Vec<u8>;
    fn checksum_valid(&self) -> bool;
    fn lvalue(&self) -> u8;
    fn length_valid(&self) -> bool;
    fn qvalue(&self) -> u8;
    fn q1(&self) -> u8;
    fn q2(&self) -> u8;
    fn body(&self) -> Vec<u8>;
    /// `body().quartile(i)`; panics exactly when the library panics.
    fn quartile(&self, i: usize) -> u8;
    /// `compare_with_config`
    fn compare(&self, o: &dyn HashObj, no_length: bool) -> u32;
    /// `compare`
    fn compare_default(&self, o: &dyn HashObj) -> u32;
    /// part-level compare(): body, checksum, qratios, length
    fn compare_parts(&self, o: &dyn HashObj) -> [u32; 4];
    fn equals(&self, o: &dyn HashObj) -> bool;
    fn clear_checksum(&mut self);
    fn boxed_clone(&self) -> Box<dyn HashObj>;
    fn as_any(&self) -> &dyn Any;
    fn debug(&self) -> String;
}
pub type H = Box<dyn HashObj>;

/// Internal generator state (hook).
#[derive(Debug, Clone, PartialEq, Eq, serde::Serialize, serde::Deserialize)]
pub struct GenState {
    /// Physical buckets.
    pub buckets: Vec<u32>,
    pub len: u32,
    pub tail: [u8; 4],
    pub tail_len: u32,
    pub checksum: Vec<u8>,
}

pub trait GenObj: Send {
    fn update(&mut self, d: &[u8]);
    fn finalize(&self, o: Opts) -> Result<H, GErr>;
    /// `finalize()` (default options)
    fn finalize_default(&self) -> Result<H, GErr>;
    /// One `GeneratorOptions::new()` object on which the setters are called in the given order
    /// (0 = length mode (true = conservative), 1 = pure integer Q ratios, 2 = allow small,
    /// 3 = allow half-empty, 4 = allow three-quarter-empty), then `finalize_with_options`.
    fn finalize_setters(&self, seq: &[(u8, bool)]) -> Result<H, GErr>;
    fn processed_len(&self) -> Option<u32>;
    fn boxed_clone(&self) -> Box<dyn GenObj>;
    /// `Clone::clone_from`: a generator that was first fed `pre` (any state) and is then
    /// overwritten by `dst.clone_from(self)`.
    fn boxed_clone_from(&self, pre: &[u8]) -> Box<dyn GenObj>;
    /// `Clone::clone_from` into a generator made (hook) from the given state; None without hooks.
    fn boxed_clone_from_state(&self, dst: &GenState) -> Option<Box<dyn GenObj>>;
    /// Hook: read the state back (None without hooks).
    fn state(&self) -> Option<GenState>;
}
pub type G = Box<dyn GenObj>;

/// Associated constants as the library reports them.
#[derive(Debug, Clone, Copy, PartialEq, Eq)]
pub struct Consts {
    pub number_of_buckets: usize,
    pub size_in_bytes: usize,
    pub len_in_str_except_prefix: usize,
    pub len_in_str: usize,
    pub gen_min: u32,
    pub gen_min_conservative: u32,
    pub gen_max: u32,
    pub checksum_size: usize,
    pub checksum_max_distance: u32,
    pub body_size: usize,
    pub body_num_buckets: usize,
    pub body_max_distance: u32,
    pub is_checksum_effective: bool,
}

/// One record of what a serializer received.
#[derive(Debug, Clone, PartialEq, Eq)]
pub enum SerRecord {
    Str(String),
    Bytes(Vec<u8>),
    Other(String),
}

/// One hash variant of the crate under test.
pub trait VariantApi: Sync {
    fn v(&self) -> Variant;
    fn consts(&self) -> Consts;
    fn max_distance(&self, no_length: bool) -> u32;
    fn from_str_bytes(&self, s: &[u8], p: Option<Prefix>) -> Result<H, PErr>;
    fn from_str_with(&self, s: &str, p: Option<Prefix>) -> Result<H, PErr>;
    /// `FromStr::from_str`
    fn from_str(&self, s: &str) -> Result<H, PErr>;
    /// `TryFrom<&[u8]>`
    fn try_from_slice(&self, b: &[u8]) -> Result<H, PErr>;
    /// `TryFrom<&[u8; N]>`; `b.len()` must be N (the probe asserts it).
    fn try_from_array(&self, b: &[u8]) -> Result<H, PErr>;
    fn generator(&self) -> G;
    /// `Generator::<T>::default()`
    fn generator_default(&self) -> G;
    /// `DataLengthValidity::new::<BUCKETS>(n)`
    fn validity(&self, n: u32) -> Validity;
    // --- easy functions (None when not compiled)
    fn hash_buf(&self, d: &[u8]) -> Option<Result<H, GErr>>;
    fn hash_stream(&self, r: &mut dyn Read) -> Option<Result<H, StreamErr>>;
    fn hash_file(&self, p: &Path) -> Option<Result<H, StreamErr>>;
    fn compare_with(&self, l: &str, r: &str) -> Option<Result<u32, (Side, PErr)>>;
    // --- hooks (None when not compiled / backend not available)
    fn gen_from_state(&self, st: &GenState) -> Option<G>;
    fn b_mapping(&self, b0: u8, b1: u8, b2: u8, b3: u8) -> Option<u8>;
    /// Fill `out[(b1<<16)|(b2<<8)|b3]` for the given `b0`; false without hooks.
    fn b_mapping_sweep(&self, b0: u8, out: &mut [u8]) -> bool;
    fn body_distance_by(&self, backend: DistBackend, a: &[u8], b: &[u8]) -> Option<u32>;
    fn aggregate_by(&self, backend: AggBackend, buckets: &[u32], q1: u32, q2: u32, q3: u32) -> Option<Vec<u8>>;
    // --- serde (None when not compiled)
    fn to_json(&self, h: &dyn HashObj) -> Option<Result<String, String>>;
    fn from_json(&self, s: &[u8]) -> Option<Result<H, String>>;
    fn to_cbor(&self, h: &dyn HashObj) -> Option<Result<Vec<u8>, String>>;
    fn from_cbor(&self, s: &[u8]) -> Option<Result<H, String>>;
    fn to_postcard(&self, h: &dyn HashObj) -> Option<Result<Vec<u8>, String>>;
    fn from_postcard(&self, s: &[u8]) -> Option<Result<H, String>>;
    fn mock_ser(&self, h: &dyn HashObj, human: bool) -> Option<SerRecord>;
    fn mock_de(&self, script: &crate::mockserde::DeScript) -> Option<Result<H, String>>;
    /// Which `deserialize_*` method the type's `Deserialize` impl calls on a (non-)human-readable
    /// deserializer (a format that honours the hint delivers only that kind of value).
    fn mock_de_hint(&self, human: bool) -> Option<String>;
    /// Allocator calls made during `T::deserialize(mock)` alone (mock errors rendered quietly):
    /// (accepted, allocator calls).
    fn mock_de_allocs(&self, script: &crate::mockserde::DeScript) -> Option<(bool, u64)>;
    /// `Deserialize::deserialize_in_place` into an existing value (what containers use when they
    /// reload in place); the place starts as the hash with binary form `initial`.
    fn mock_de_in_place(&self, script: &crate::mockserde::DeScript, initial: &[u8]) -> Option<Result<H, String>>;
    // --- allocation-free executor (C18); see `noalloc`
    fn noalloc_exec(&self, prog: &crate::noalloc::Program, rep: &mut crate::noalloc::Report);
}

/// Build facts of this probe.
#[derive(Debug, Clone, serde::Serialize)]
pub struct Caps {
    pub config: String,
    pub features: Vec<String>,
    pub target_features: Vec<String>,
    pub std: bool,
    pub easy: bool,
    pub serde: bool,
    pub serde_buffered: bool,
    pub strict: bool,
    pub unsafe_: bool,
    pub hooks: bool,
    pub debug_assertions: bool,
    pub low_memory_buckets: bool,
}

/// Everything that is not per-variant.
pub trait GlobalApi: Sync {
    fn caps(&self) -> Caps;
    fn variants(&self) -> Vec<&dyn VariantApi>;
    fn len_new(&self, n: u32) -> Option<u8>;
    fn len_try_from(&self, n: u32) -> Result<u8, PErr>;
    fn len_range(&self, code: u8) -> Option<(u32, u32)>;
    fn len_is_valid(&self, code: u8) -> bool;
    fn len_compare(&self, a: u8, b: u8) -> u32;
    fn len_max_distance(&self) -> u32;
    fn q_max_distance(&self) -> u32;
    /// For n in start..start+out.len(): low byte = code, 0x100 = `new` gave None,
    /// 0x200 = `try_from` disagreed with `new` (is_ok != is_some, or a different
    /// code), 0x400 = the error was not LengthIsTooLarge.
    fn len_sweep(&self, start: u32, out: &mut [u16]);
    fn validity_is_err(&self, v: Validity) -> bool;
    fn validity_is_err_on(&self, v: Validity, conservative: bool) -> bool;
    /// `tlsh::compare` (None without easy functions)
    fn compare_normal(&self, l: &str, r: &str) -> Option<Result<u32, (Side, PErr)>>;
    /// `tlsh::hash_buf`, `hash_stream`, `hash_file` (Normal)
    fn hash_buf_normal(&self, d: &[u8]) -> Option<Result<H, GErr>>;
    fn hash_stream_normal(&self, r: &mut dyn Read) -> Option<Result<H, StreamErr>>;
    fn hash_file_normal(&self, p: &Path) -> Option<Result<H, StreamErr>>;
    fn gerr_category(&self, e: GErr) -> GCat;
    /// An `io::Error` of the given kind whose payload is one of the crate's OWN `GeneratorError`
    /// values (what a reader that wraps another hashing step might report).
    fn io_error_with_generator_payload(&self, kind: std::io::ErrorKind, which: u8) -> std::io::Error;
    /// Display strings of all error values (for transcripts).
    fn error_displays(&self) -> Vec<String>;
    /// Number of allocator calls made by the current thread so far.
    fn alloc_count(&self) -> u64;
}
