//! A scripted mock `Deserializer` / recording `Serializer` (C16).

use crate::api::SerRecord;
use serde::de::{self, Visitor};
use serde::ser;
use std::cell::Cell;
use std::fmt;

#[derive(Debug, Clone, PartialEq, serde::Serialize, serde::Deserialize)]
pub enum DeEvent {
    Str(String),
    BorrowedStr(String),
    String(String),
    Bytes(Vec<u8>),
    BorrowedBytes(Vec<u8>),
    ByteBuf(Vec<u8>),
    Bool(bool),
    I64(i64),
    U64(u64),
    F64(f64),
    Char(char),
    Unit,
    None,
    /// `visit_some` with a nested deserializer playing the inner event
    Some(Box<DeEvent>),
    NewtypeStruct(Box<DeEvent>),
    /// a sequence of u8 elements
    Seq(Vec<u8>),
    /// a map with string keys and u64 values
    Map(Vec<(String, u64)>),
}

impl DeEvent {
    pub fn kind(&self) -> &'static str {
        match self {
            DeEvent::Str(_) => "str",
            DeEvent::BorrowedStr(_) => "borrowed_str",
            DeEvent::String(_) => "string",
            DeEvent::Bytes(_) => "bytes",
            DeEvent::BorrowedBytes(_) => "borrowed_bytes",
            DeEvent::ByteBuf(_) => "byte_buf",
            DeEvent::Bool(_) => "bool",
            DeEvent::I64(_) => "i64",
            DeEvent::U64(_) => "u64",
            DeEvent::F64(_) => "f64",
            DeEvent::Char(_) => "char",
            DeEvent::Unit => "unit",
            DeEvent::None => "none",
            DeEvent::Some(_) => "some",
            DeEvent::NewtypeStruct(_) => "newtype_struct",
            DeEvent::Seq(_) => "seq",
            DeEvent::Map(_) => "map",
        }
    }
    /// The payload if the event is string- or bytes-like at top level.
    pub fn payload(&self) -> Option<&[u8]> {
        match self {
            DeEvent::Str(s) | DeEvent::BorrowedStr(s) | DeEvent::String(s) => Some(s.as_bytes()),
            DeEvent::Bytes(b) | DeEvent::BorrowedBytes(b) | DeEvent::ByteBuf(b) => Some(b),
            _ => None,
        }
    }
}

#[derive(Debug, Clone, PartialEq, serde::Serialize, serde::Deserialize)]
pub struct DeScript {
    pub human: bool,
    pub event: DeEvent,
}

#[derive(Debug, Clone)]
pub struct MockError(pub String);
impl fmt::Display for MockError {
    fn fmt(&self, f: &mut fmt::Formatter<'_>) -> fmt::Result {
        f.write_str(&self.0)
    }
}
impl std::error::Error for MockError {}
thread_local! {
    /// When set, `de::Error::custom` drops the message instead of rendering it (no allocation by
    /// the mock format itself: C18 measures the library's own error paths).
    pub static QUIET_ERRORS: std::cell::Cell<bool> = const { std::cell::Cell::new(false) };
}

impl de::Error for MockError {
    fn custom<T: fmt::Display>(msg: T) -> Self {
        if QUIET_ERRORS.with(|q| q.get()) {
            return MockError(String::new());
        }
        MockError(msg.to_string())
    }
}
impl ser::Error for MockError {
    fn custom<T: fmt::Display>(msg: T) -> Self {
        MockError(msg.to_string())
    }
}

/// Plays one event to whatever visitor it is given, whatever was asked for.
pub struct MockDeserializer<'de> {
    pub human: bool,
    pub event: &'de DeEvent,
    /// which `deserialize_*` the type asked for
    pub hint: &'de Cell<&'static str>,
}

impl<'de> MockDeserializer<'de> {
    pub fn new(script: &'de DeScript, hint: &'de Cell<&'static str>) -> Self {
        MockDeserializer { human: script.human, event: &script.event, hint }
    }
    fn play<V: Visitor<'de>>(self, hint: &'static str, visitor: V) -> Result<V::Value, MockError> {
        self.hint.set(hint);
        match self.event {
            DeEvent::Str(s) => visitor.visit_str(s),
            DeEvent::BorrowedStr(s) => visitor.visit_borrowed_str(s),
            DeEvent::String(s) => visitor.visit_string(s.clone()),
            DeEvent::Bytes(b) => visitor.visit_bytes(b),
            DeEvent::BorrowedBytes(b) => visitor.visit_borrowed_bytes(b),
            DeEvent::ByteBuf(b) => visitor.visit_byte_buf(b.clone()),
            DeEvent::Bool(b) => visitor.visit_bool(*b),
            DeEvent::I64(x) => visitor.visit_i64(*x),
            DeEvent::U64(x) => visitor.visit_u64(*x),
            DeEvent::F64(x) => visitor.visit_f64(*x),
            DeEvent::Char(c) => visitor.visit_char(*c),
            DeEvent::Unit => visitor.visit_unit(),
            DeEvent::None => visitor.visit_none(),
            DeEvent::Some(inner) => visitor.visit_some(MockDeserializer { human: self.human, event: inner, hint: self.hint }),
            DeEvent::NewtypeStruct(inner) => {
                visitor.visit_newtype_struct(MockDeserializer { human: self.human, event: inner, hint: self.hint })
            }
            DeEvent::Seq(items) => visitor.visit_seq(de::value::SeqDeserializer::new(items.iter().copied())),
            DeEvent::Map(items) => {
                visitor.visit_map(de::value::MapDeserializer::new(items.iter().map(|(k, v)| (k.as_str(), *v))))
            }
        }
    }
}

macro_rules! forward {
    ($($name:ident)*) => {
        $(fn $name<V: Visitor<'de>>(self, visitor: V) -> Result<V::Value, MockError> {
            self.play(stringify!($name), visitor)
        })*
    };
}

impl<'de> de::Deserializer<'de> for MockDeserializer<'de> {
    type Error = MockError;
    forward! {
        deserialize_any deserialize_bool deserialize_i8 deserialize_i16 deserialize_i32 deserialize_i64
        deserialize_u8 deserialize_u16 deserialize_u32 deserialize_u64 deserialize_f32 deserialize_f64
        deserialize_char deserialize_str deserialize_string deserialize_bytes deserialize_byte_buf
        deserialize_option deserialize_unit deserialize_seq deserialize_map deserialize_identifier
        deserialize_ignored_any
    }
    fn deserialize_unit_struct<V: Visitor<'de>>(self, _n: &'static str, v: V) -> Result<V::Value, MockError> {
        self.play("deserialize_unit_struct", v)
    }
    fn deserialize_newtype_struct<V: Visitor<'de>>(self, _n: &'static str, v: V) -> Result<V::Value, MockError> {
        self.play("deserialize_newtype_struct", v)
    }
    fn deserialize_tuple<V: Visitor<'de>>(self, _l: usize, v: V) -> Result<V::Value, MockError> {
        self.play("deserialize_tuple", v)
    }
    fn deserialize_tuple_struct<V: Visitor<'de>>(self, _n: &'static str, _l: usize, v: V) -> Result<V::Value, MockError> {
        self.play("deserialize_tuple_struct", v)
    }
    fn deserialize_struct<V: Visitor<'de>>(self, _n: &'static str, _f: &'static [&'static str], v: V) -> Result<V::Value, MockError> {
        self.play("deserialize_struct", v)
    }
    fn deserialize_enum<V: Visitor<'de>>(self, _n: &'static str, _f: &'static [&'static str], v: V) -> Result<V::Value, MockError> {
        self.play("deserialize_enum", v)
    }
    fn is_human_readable(&self) -> bool {
        self.human
    }
}

/// Records what a `Serialize` impl sends.
pub struct MockSerializer {
    pub human: bool,
}

macro_rules! other {
    ($($name:ident($t:ty))*) => {
        $(fn $name(self, v: $t) -> Result<SerRecord, MockError> {
            Ok(SerRecord::Other(format!("{}({:?})", stringify!($name), v)))
        })*
    };
}

impl ser::Serializer for MockSerializer {
    type Ok = SerRecord;
    type Error = MockError;
    type SerializeSeq = ser::Impossible<SerRecord, MockError>;
    type SerializeTuple = ser::Impossible<SerRecord, MockError>;
    type SerializeTupleStruct = ser::Impossible<SerRecord, MockError>;
    type SerializeTupleVariant = ser::Impossible<SerRecord, MockError>;
    type SerializeMap = ser::Impossible<SerRecord, MockError>;
    type SerializeStruct = ser::Impossible<SerRecord, MockError>;
    type SerializeStructVariant = ser::Impossible<SerRecord, MockError>;
    other! {
        serialize_bool(bool) serialize_i8(i8) serialize_i16(i16) serialize_i32(i32) serialize_i64(i64)
        serialize_u8(u8) serialize_u16(u16) serialize_u32(u32) serialize_u64(u64)
        serialize_f32(f32) serialize_f64(f64) serialize_char(char)
    }
    fn serialize_str(self, v: &str) -> Result<SerRecord, MockError> {
        Ok(SerRecord::Str(v.to_string()))
    }
    fn serialize_bytes(self, v: &[u8]) -> Result<SerRecord, MockError> {
        Ok(SerRecord::Bytes(v.to_vec()))
    }
    fn serialize_none(self) -> Result<SerRecord, MockError> {
        Ok(SerRecord::Other("none".into()))
    }
    fn serialize_some<T: ?Sized + ser::Serialize>(self, _v: &T) -> Result<SerRecord, MockError> {
        Ok(SerRecord::Other("some".into()))
    }
    fn serialize_unit(self) -> Result<SerRecord, MockError> {
        Ok(SerRecord::Other("unit".into()))
    }
    fn serialize_unit_struct(self, n: &'static str) -> Result<SerRecord, MockError> {
        Ok(SerRecord::Other(format!("unit_struct {}", n)))
    }
    fn serialize_unit_variant(self, n: &'static str, _i: u32, _v: &'static str) -> Result<SerRecord, MockError> {
        Ok(SerRecord::Other(format!("unit_variant {}", n)))
    }
    fn serialize_newtype_struct<T: ?Sized + ser::Serialize>(self, n: &'static str, _v: &T) -> Result<SerRecord, MockError> {
        Ok(SerRecord::Other(format!("newtype_struct {}", n)))
    }
    fn serialize_newtype_variant<T: ?Sized + ser::Serialize>(
        self,
        n: &'static str,
        _i: u32,
        _v: &'static str,
        _x: &T,
    ) -> Result<SerRecord, MockError> {
        Ok(SerRecord::Other(format!("newtype_variant {}", n)))
    }
    fn serialize_seq(self, _l: Option<usize>) -> Result<Self::SerializeSeq, MockError> {
        Err(MockError("seq".into()))
    }
    fn serialize_tuple(self, _l: usize) -> Result<Self::SerializeTuple, MockError> {
        Err(MockError("tuple".into()))
    }
    fn serialize_tuple_struct(self, _n: &'static str, _l: usize) -> Result<Self::SerializeTupleStruct, MockError> {
        Err(MockError("tuple_struct".into()))
    }
    fn serialize_tuple_variant(
        self,
        _n: &'static str,
        _i: u32,
        _v: &'static str,
        _l: usize,
    ) -> Result<Self::SerializeTupleVariant, MockError> {
        Err(MockError("tuple_variant".into()))
    }
    fn serialize_map(self, _l: Option<usize>) -> Result<Self::SerializeMap, MockError> {
        Err(MockError("map".into()))
    }
    fn serialize_struct(self, _n: &'static str, _l: usize) -> Result<Self::SerializeStruct, MockError> {
        Err(MockError("struct".into()))
    }
    fn serialize_struct_variant(
        self,
        _n: &'static str,
        _i: u32,
        _v: &'static str,
        _l: usize,
    ) -> Result<Self::SerializeStructVariant, MockError> {
        Err(MockError("struct_variant".into()))
    }
    fn is_human_readable(&self) -> bool {
        self.human
    }
}
