//! Programs for the allocation-free executor (C18).
//!
//! The probe executes a `Program` on concrete library types with all state in
//! stack variables, and records the allocator call count around every single
//! operation into a pre-allocated `Report`.

use crate::api::Prefix;

#[derive(Debug, Clone, PartialEq, Eq, serde::Serialize, serde::Deserialize)]
pub enum Op {
    /// `Generator::new()` replaces the current generator.
    New,
    /// `update(pieces[i])`
    Update(usize),
    /// `finalize_with_options` for all 32 option settings; the last Ok becomes hash A.
    FinalizeAll,
    /// `finalize_with_options(option index)`; Ok becomes hash A (old A becomes B).
    Finalize(u8),
    ProcessedLen,
    /// clone the generator and continue with the clone
    CloneGen,
    /// `from_str_bytes(texts[i], prefix)`; Ok becomes hash A.
    ParseStr(usize, Option<Prefix>),
    /// `TryFrom<&[u8]>` on `bins[i]`; Ok becomes hash A.
    TryFromSlice(usize),
    /// `store_into_bytes` of A into a stack buffer of the given length
    StoreBytes(usize),
    /// `store_into_str_bytes` of A
    StoreStr(Prefix, usize),
    /// `compare_with_config(A, B)`
    Compare(bool),
    ClearChecksum,
    /// checksum().data(), length().value(), qratios(), body().data(), quartile(0..n)
    Accessors,
    /// `max_distance`
    MaxDistance,
    /// Positive control: `A.to_string()` (must allocate)
    ControlToString,
}

#[derive(Debug, Clone, Default, serde::Serialize, serde::Deserialize)]
pub struct Program {
    pub pieces: Vec<Vec<u8>>,
    pub texts: Vec<Vec<u8>>,
    pub bins: Vec<Vec<u8>>,
    pub ops: Vec<Op>,
}

pub const MAX_OPS: usize = 64;

#[derive(Debug, Clone)]
pub struct Report {
    pub allocs: [u64; MAX_OPS],
    pub executed: usize,
    pub finalize_ok: u32,
    pub finalize_err: u32,
    pub parse_ok: u32,
    pub parse_err: u32,
    pub store_ok: u32,
    pub store_err: u32,
    pub compares: u32,
    /// folds results so that nothing is optimised away
    pub digest: u64,
}

impl Default for Report {
    fn default() -> Self {
        Report { allocs: [0; MAX_OPS], executed: 0, finalize_ok: 0, finalize_err: 0, parse_ok: 0, parse_err: 0, store_ok: 0, store_err: 0, compares: 0, digest: 0 }
    }
}
