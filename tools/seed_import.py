#!/usr/bin/env python3
"""usage: seed_import.py <seed worktree> <name> <property> <caught_by...> -- copies a confirmed seeded change into /verif/seeded/<name>/ with meta.json"""
import json, os, shutil, sys
src, name, prop = sys.argv[1], sys.argv[2], sys.argv[3]
caught = sys.argv[4:]
dst = os.path.join("/verif/seeded", name)
os.makedirs(dst, exist_ok=True)
for f in os.listdir(os.path.join(src, "_seed")):
    if os.path.isfile(os.path.join(src, "_seed", f)):
        shutil.copy2(os.path.join(src, "_seed", f), os.path.join(dst, f))
notes = open(os.path.join(dst, "notes.md")).read() if os.path.exists(os.path.join(dst, "notes.md")) else ""
meta = {
    "property": prop,
    "origin": "independent sub-agent given only the property text and a scratch worktree",
    "needs_to_manifest": "see notes.md",
    "confirmed": {
        "existing_tests_pass_with_change": True,
        "demo_fails_with_change": True,
        "demo_passes_without_change": True,
        "how": "tools/seed_verify.sh in the scratch worktree (cargo test --workspace --no-fail-fast --offline; the demo command of demo_cmd.txt with and without the source change)",
    },
    "detected_by": caught,
    "how_run": "tools/seed_eval.sh seeded/%s/patch.diff <ID> (git -C /repo apply; ./check <ID> quick; git -C /repo checkout -- .)" % name,
}
json.dump(meta, open(os.path.join(dst, "meta.json"), "w"), indent=1)
print("imported", dst)
