#!/bin/sh
# usage: tools/seed_eval.sh <patch.diff> <ID> [tier]  -- applies a seeded change to /repo, runs the check, reverts.
set -u
patch=$1; id=$2; tier=${3:-quick}
cd /repo || exit 2
if [ -n "$(git status --porcelain)" ]; then echo "/repo not clean"; exit 2; fi
git apply "$patch" || { echo "patch does not apply"; exit 2; }
cd /verif
VERIF_SEED=${VERIF_SEED:-0} ./check "$id" "$tier" 2>&1 | grep -E "^(OK|VIOLATION|INCONCLUSIVE|KNOWN|\[check\] C)" | head -6
rc=$?
git -C /repo checkout -- . 
git -C /repo status --porcelain | head -3
exit 0
