#!/usr/bin/env python3
"""Generates /verif/MANIFEST.json from the table below (kept next to the driver)."""
import json, os, sys
ROOT = os.path.dirname(os.path.dirname(os.path.abspath(__file__)))
sys.path.insert(0, ROOT)

CHECKS = {
    "C01": dict(
        technique="property-based differential testing against an independent reference model (proptest, shrinking) + exhaustive enumeration of the 2^32 bucket-mapping arguments and of the length-table boundaries",
        text="Generated-input search: random/structured byte strings and injected generator states (counts up to 2^32-1) x 5 variants x all 32 option settings compared part by part with an independent TLSH reference model; both bucket mappings compared on all 2^32 argument tuples. Held on everything explored; not a proof for all byte strings.",
        note="Trusts the frozen reference model (vmodel: Pearson table, topval[170], soft-float f32 formula), validated at every start against the official implementation's published vectors carried by the repository; injected states are validated against real streaming in C11 thorough.",
        ref="DESIGN.md section 5 / C01"),
}

def main():
    props = [json.loads(l)["id"] for l in open(os.path.join(ROOT, "properties.jsonl"))]
    checks = []
    for pid in props:
        if pid not in CHECKS:
            continue
        c = CHECKS[pid]
        checks.append({
            "property_id": pid,
            "quick_cmd": "./check %s quick" % pid,
            "thorough_cmd": "./check %s thorough" % pid,
            "evidence_file": "/verif/evidence/%s.json" % pid,
            "replay_cmd_template": "./check %s --replay {path}" % pid,
            "engine": "probe",
            "level_claimed": {"category": "exploration", "text": c["text"], "design_ref": c["ref"]},
            "level_note": c["note"],
            "technique": c["technique"],
        })
    na = [{"property_id": p, "reason": "check under construction in this session (no claim yet)"} for p in props if p not in CHECKS]
    m = {
        "version": 1,
        "setup_cmd": "./check --setup",
        "hooks": {
            "guard": "fast_tlsh_verif",
            "enable": "RUSTFLAGS=\"--cfg fast_tlsh_verif\" (set by ./check for every probe build; the hooks are the modules generate::verif, compare::dist_body::verif, generate::bucket_aggregation::verif and verif_hooks of fast-tlsh)",
            "baseline_off_cmd": "cd /repo && cargo test --workspace --no-fail-fast --offline",
            "source_commits": HOOK_COMMITS,
            "add_only": True,
        },
        "engines": [
            {"name": "probe", "path": "/verif/harness", "serves_properties": sorted(CHECKS),
             "kind_free_text": "Rust workspace: vmodel (independent TLSH reference model), vcheck (proptest-driven checks against an object-safe API), probe (thin adapter to fast-tlsh, one binary per build configuration); driven by /verif/check"},
        ],
        "checks": checks,
        "not_applicable": na,
        "notes": "Technique family: property-based testing and fuzzing (generated-input search against explicit oracles). See DESIGN.md.",
    }
    json.dump(m, open(os.path.join(ROOT, "MANIFEST.json"), "w"), indent=1)
    print("wrote MANIFEST.json with %d checks, %d not_applicable" % (len(checks), len(na)))

HOOK_COMMITS = ["d9c7ab7"]
if __name__ == "__main__":
    main()
