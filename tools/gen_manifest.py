#!/usr/bin/env python3
"""Generates /verif/MANIFEST.json from the table below (kept next to the driver)."""
import json, os, sys
ROOT = os.path.dirname(os.path.dirname(os.path.abspath(__file__)))
sys.path.insert(0, ROOT)

sys.path.insert(0, os.path.join(ROOT, "tools"))
from meta import MANIFEST as CHECKS

def main():
    props = [json.loads(l)["id"] for l in open(os.path.join(ROOT, "properties.jsonl"))]
    checks = []
    for pid in props:
        if pid not in CHECKS:
            continue
        c = CHECKS[pid]
        checks.append({
            "property_id": pid,
            "quick_cmd": "./check %s quick" % pid,
            "thorough_cmd": "./check %s thorough" % pid,
            "evidence_file": "/verif/evidence/%s.json" % pid,
            "replay_cmd_template": "./check %s --replay {path}" % pid,
            "engine": "probe",
            "level_claimed": {"category": "exploration", "text": c["text"], "design_ref": "DESIGN.md section 5 / %s" % pid},
            "level_note": c["note"],
            "technique": c["technique"],
        })
    na = [{"property_id": p, "reason": "no check claimed"} for p in props if p not in CHECKS]
    m = {
        "version": 1,
        "setup_cmd": "./check --setup",
        "hooks": {
            "guard": "fast_tlsh_verif",
            "enable": "RUSTFLAGS=\"--cfg fast_tlsh_verif\" (set by ./check for every probe build; the hooks are the modules generate::verif, compare::dist_body::verif, generate::bucket_aggregation::verif and verif_hooks of fast-tlsh)",
            "baseline_off_cmd": "cd /repo && cargo test --workspace --no-fail-fast --offline",
            "source_commits": HOOK_COMMITS,
            "add_only": True,
        },
        "engines": [
            {"name": "probe", "path": "/verif/harness", "serves_properties": sorted(CHECKS),
             "kind_free_text": "Rust workspace: vmodel (independent TLSH reference model), vcheck (proptest-driven checks against an object-safe API), probe (thin adapter to fast-tlsh, one binary per build configuration); driven by /verif/check"},
        ],
        "checks": checks,
        "not_applicable": na,
        "fix_commits": FIX_COMMITS,
        "notes": "Technique family: property-based testing and fuzzing (generated-input search against explicit oracles). See DESIGN.md.",
    }
    json.dump(m, open(os.path.join(ROOT, "MANIFEST.json"), "w"), indent=1)
    print("wrote MANIFEST.json with %d checks, %d not_applicable" % (len(checks), len(na)))

HOOK_COMMITS = ["d9c7ab7"]
FIX_COMMITS = ["fc64808", "e6891a7", "86f8cdb"]
if __name__ == "__main__":
    main()
