#!/bin/sh
# usage: tools/seed_verify.sh /tmp/seed-CXX  -- confirms: tests pass with the change; demo fails with it, passes without.
d=$1
cd "$d" || exit 2
export CARGO_NET_OFFLINE=true
cmd=$(grep -v '^#' _seed/demo_cmd.txt | grep -E "cargo" | head -1 | sed "s#^cd $d *&& *##")
echo "demo cmd: $cmd"
t=$(cargo test --workspace --no-fail-fast --offline 2>&1 | grep -E "^test result" | head -1)
echo "tests with change: $t"
sh -c "$cmd" >/tmp/seed_demo_with.log 2>&1; w=$?
git stash push -q -- fast-tlsh/src
sh -c "$cmd" >/tmp/seed_demo_without.log 2>&1; wo=$?
git stash pop -q
echo "demo exit with change: $w ; without: $wo"
