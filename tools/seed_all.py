#!/usr/bin/env python3
"""Re-runs every seeded change in /verif/seeded against the quick check of its property
(git -C /repo apply; ./check <ID> quick; git -C /repo checkout -- .) and writes seeded/RESULTS.md.
Evidence files are restored afterwards (the mutated runs must not leave their evidence behind)."""
import json, os, shutil, subprocess, sys, time
ROOT = "/verif"
seeds = sorted(d for d in os.listdir(ROOT + "/seeded") if os.path.isdir(ROOT + "/seeded/" + d))
only = set(sys.argv[1:])
rows = []
bak = ROOT + "/build/evidence.bak"
shutil.rmtree(bak, ignore_errors=True)
shutil.copytree(ROOT + "/evidence", bak)
assert not subprocess.run(["git", "-C", "/repo", "status", "--porcelain"], capture_output=True, text=True).stdout.strip(), "/repo not clean"
for s in seeds:
    if only and s not in only:
        continue
    meta = json.load(open("%s/seeded/%s/meta.json" % (ROOT, s)))
    pid = meta["property"]
    patch = "%s/seeded/%s/patch.diff" % (ROOT, s)
    t0 = time.time()
    a = subprocess.run(["git", "-C", "/repo", "apply", patch], capture_output=True, text=True)
    if a.returncode != 0:
        rows.append((s, pid, "patch does not apply", 0, "")); continue
    try:
        p = subprocess.run([ROOT + "/check", pid, "quick"], cwd=ROOT, capture_output=True, text=True)
    finally:
        subprocess.run(["git", "-C", "/repo", "checkout", "--", "."])
    line = next((l for l in p.stderr.splitlines() if l.startswith("[check] " + pid)), "")
    rows.append((s, pid, {0: "MISSED", 1: "detected", 2: "inconclusive"}.get(p.returncode, "?"), round(time.time() - t0), line[8:200]))
    print(rows[-1], flush=True)
shutil.rmtree(ROOT + "/evidence")
shutil.copytree(bak, ROOT + "/evidence")
# a subset run (names on the command line) replaces / adds its rows and keeps the others
res_path = ROOT + "/seeded/RESULTS.md"
if only and os.path.exists(res_path):
    new = {r[0]: r for r in rows}
    kept = []
    for line in open(res_path):
        if line.startswith("| `"):
            cells = [c.strip() for c in line.strip().strip("|").split(" | ")]
            name = cells[0].strip("`")
            if name not in new and os.path.isdir(ROOT + "/seeded/" + name):
                kept.append((name, cells[1], cells[2], cells[3], " | ".join(cells[4:]).replace("\\|", "|")))
    rows = sorted(kept + rows, key=lambda r: r[0])
with open(res_path, "w") as f:
    f.write("# Seeded changes against the current quick checks\n\nProduced by `tools/seed_all.py` (apply to /repo, `./check <ID> quick`, revert).\n\n| seeded change | property | result | seconds | first report |\n|---|---|---|---|---|\n")
    for r in rows:
        f.write("| `%s` | %s | %s | %s | %s |\n" % (r[0], r[1], r[2], r[3], str(r[4]).replace("|", "\\|")))
print("detected %d / %d" % (sum(1 for r in rows if r[2] == "detected"), len(rows)))
