#!/bin/sh
# Runs every check of a tier in sequence (default quick); prints one line per property.
tier=${1:-quick}
rc=0
for p in C01 C02 C03 C04 C05 C06 C07 C08 C09 C10 C11 C12 C13 C14 C15 C16 C17 C18; do
  ./check $p $tier 2>/dev/null | grep -E "^(OK|VIOLATION|KNOWN-FINDING|INCONCLUSIVE)" || rc=1
done
exit $rc
