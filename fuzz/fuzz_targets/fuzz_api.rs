#![no_main]
//! C17: bytes -> (total hand-written decoder) -> a sequence of safe API calls incl. adversarial readers.
//! Oracles: AddressSanitizer / debug assertions (crash), and the panic discipline.
use libfuzzer_sys::fuzz_target;
use vcheck::checks::c17;
use vcheck::ctx::CaseStats;

/// libfuzzer-sys aborts on ANY panic, also the ones the oracle expects and catches
/// (documented bucket-index panic, contract-violating reader): install a quiet hook and
/// abort explicitly only on a violation.
fn quiet() {
    static INIT: std::sync::Once = std::sync::Once::new();
    INIT.call_once(|| std::panic::set_hook(Box::new(|_| {})));
}

fn violation(m: String) -> ! {
    eprintln!("{}", m);
    std::process::abort()
}

fuzz_target!(|data: &[u8]| {
    quiet();
    // a total decoder: every input denotes a sequence (sizes bounded by construction)
    let seq = c17::decode_lenient(data);
    if let Err(m) = c17::exec(&probe::API, &seq, &CaseStats::null()) {
        violation(format!("C17 violation: {}", m));
    }
});
