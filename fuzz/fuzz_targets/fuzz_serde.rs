#![no_main]
//! C16: raw documents for the three formats and the scripted mock deserializer.
use libfuzzer_sys::fuzz_target;
use vcheck::api::GlobalApi;
use vcheck::checks::c16;
use vcheck::ctx::CaseStats;

/// libfuzzer-sys aborts on ANY panic, also the ones the oracle expects and catches
/// (documented bucket-index panic, contract-violating reader): install a quiet hook and
/// abort explicitly only on a violation.
fn quiet() {
    static INIT: std::sync::Once = std::sync::Once::new();
    INIT.call_once(|| std::panic::set_hook(Box::new(|_| {})));
}

fn violation(m: String) -> ! {
    eprintln!("{}", m);
    std::process::abort()
}

fuzz_target!(|data: &[u8]| {
    quiet();
    if data.len() < 3 {
        return;
    }
    let api = &probe::API;
    let caps = api.caps();
    let vs = api.variants();
    let va = vs[data[0] as usize % vs.len()];
    let st = CaseStats::null();
    let rest = &data[2..];
    let r = match data[1] % 5 {
        0 => c16::case_json(va, &c16::JDoc::Raw(String::from_utf8_lossy(rest).into_owned()), &st),
        1 => c16::case_json(va, &c16::JDoc::Str(String::from_utf8_lossy(rest).into_owned()), &st),
        2 => c16::case_cbor(va, &c16::CDoc::Raw(rest.to_vec()), caps.serde_buffered, &st),
        3 => c16::case_cbor(va, &c16::CDoc::Bytes(rest.to_vec()), caps.serde_buffered, &st),
        _ => c16::case_postcard(va, &c16::PDoc { declared: rest[0] as u64 & 0x7f, payload: rest[1..].to_vec() }, &st),
    };
    if let Err(m) = r {
        violation(format!("C16 violation: {}", m));
    }
    // visitor events decoded from the same bytes
    if let Ok(script) = postcard::from_bytes::<vcheck::mockserde::DeScript>(rest) {
        if let Err(m) = c16::case_mock(va, &script, &st) {
            violation(format!("C16 violation: {}", m));
        }
    }
});
