#![no_main]
//! C05 / C04 / C14: bytes -> (variant, prefix mode, string).  Oracles: the model's
//! accept/reject predicate and error set, the canonical form, and buffer discipline
//! with exactly sized heap buffers (AddressSanitizer sees any write past the slice).
use libfuzzer_sys::fuzz_target;
use vcheck::api::GlobalApi;
use vcheck::checks::codec;
use vcheck::ctx::CaseStats;

/// libfuzzer-sys aborts on ANY panic, also the ones the oracle expects and catches
/// (documented bucket-index panic, contract-violating reader): install a quiet hook and
/// abort explicitly only on a violation.
fn quiet() {
    static INIT: std::sync::Once = std::sync::Once::new();
    INIT.call_once(|| std::panic::set_hook(Box::new(|_| {})));
}

fn violation(m: String) -> ! {
    eprintln!("{}", m);
    std::process::abort()
}

fuzz_target!(|data: &[u8]| {
    quiet();
    if data.len() < 3 {
        return;
    }
    let api = &probe::API;
    let vs = api.variants();
    let va = vs[data[0] as usize % vs.len()];
    let v = va.v();
    let strict = api.caps().strict;
    let st = CaseStats::null();
    let s = &data[2..];
    let fail = |what: &str, m: String| -> ! { violation(format!("{} violation: {}", what, m)) };
    if let Err(m) = codec::case_parse(va, s, codec::MODES[data[1] as usize % 3], strict, &st) {
        fail("C05", m);
    }
    if let Err(m) = codec::case_canonical(va, s, &st) {
        fail("C04", m);
    }
    if let Err(m) = codec::case_slice_len(va, s, strict, &st) {
        fail("C06", m);
    }
    // a hash value from the same bytes, stored into buffers of fuzzer-chosen length
    if s.len() >= v.size() + 1 && !strict {
        let b = &s[..v.size()];
        let l = s[v.size()] as usize + (data[1] as usize >> 4) * 16;
        for form in codec::FORMS {
            if let Err(m) = codec::case_buffer(va, b, form, l % (v.len_str() + 70), data[1] >> 2, 7, &st) {
                fail("C14", m);
            }
        }
        if let Err(m) = codec::case_roundtrip(va, b, &st) {
            fail("C04", m);
        }
        if let Err(m) = codec::case_binary(va, b, &st) {
            fail("C06", m);
        }
    }
});
