#![no_main]
//! C01: bytes -> (variant, data); the semantic oracle (reference model under all 32
//! option settings) is inside the target.
use libfuzzer_sys::fuzz_target;
use vcheck::api::GlobalApi;
use vcheck::ctx::CaseStats;

/// libfuzzer-sys aborts on ANY panic, also the ones the oracle expects and catches
/// (documented bucket-index panic, contract-violating reader): install a quiet hook and
/// abort explicitly only on a violation.
fn quiet() {
    static INIT: std::sync::Once = std::sync::Once::new();
    INIT.call_once(|| std::panic::set_hook(Box::new(|_| {})));
}

fn violation(m: String) -> ! {
    eprintln!("{}", m);
    std::process::abort()
}

fuzz_target!(|data: &[u8]| {
    quiet();
    if data.is_empty() {
        return;
    }
    let vs = probe::API.variants();
    let va = vs[data[0] as usize % vs.len()];
    if let Err(m) = vcheck::checks::c01::case_data(va, &data[1..], &CaseStats::null()) {
        violation(format!("C01 violation: {}", m));
    }
});
